"""C20 — MockDisplay is a faithful test oracle (structural part)."""
import json
from mirq import ty_str
from mirq.cfg import CFG
from mirq.origin import Origins, show, walk, decisions, lit_truth, enum_paths, path_conditions
from mirq.pat import match, find, strip_refs
from rules.c14 import field_index

CM = "embedded_graphics::mock_display::color_mapping::ColorMapping"
MD = "embedded_graphics::mock_display::MockDisplay"
RGB8 = {"K": (0, 0, 0), "R": (1, 0, 0), "G": (0, 1, 0), "B": (0, 0, 1), "Y": (1, 1, 0), "M": (1, 0, 1), "C": (0, 1, 1), "W": (1, 1, 1)}


def const_struct_field0(t):
    if t[0] == "const" and isinstance(t[1], str) and t[1].startswith("val:"):
        v = json.loads(t[1][4:])
        if "fields" in v and "0" in v["fields"]:
            return v["fields"]["0"]
        if "variant" in v:
            return v["variant"]
    return None


def run(ctx, rep):
    prog = ctx.program("default")
    rep.configs.append(getattr(ctx, "alias", "default"))
    try:
        pattern_dimensions(prog, rep)
    except Exception as e:
        import traceback; traceback.print_exc()
        rep.fail("R20.6", "engine", "pattern dimension analysis crashed: %r" % (e,), status="undecided")
    impls = prog.impls_of_trait(CM)
    rep.floor("R20.1", "ColorMapping impls", len(impls), 12)
    for impl in sorted(impls, key=lambda i: ty_str(i["self_ty"])):
        ty = ty_str(impl["self_ty"]).split("::")[-1]
        c2c = prog.fns[impl["fns"]["char_to_color"]]
        c2ch = prog.fns[impl["fns"]["color_to_char"]]
        if ty.startswith("Gray"):
            check_gray(prog, rep, ty, c2c, c2ch)
            continue
        # finite tables (path summaries: `match`, `if c == '.'`, `==` on the enum … alike)
        fwd = {}
        tab, _d = finite_table(prog, c2c, ("param", 1, "c"))
        for k, ret in tab.items():
            if not isinstance(k, int):
                continue
            if ty == "BinaryColor":
                val = ret[1].split("::")[-1] if ret[0] == "agg" else None
            else:
                val = const_struct_field0(ret)
            fwd[chr(k)] = val
        back = {}
        subj = ("param", 1, "color") if ty == "BinaryColor" else ("field", ("param", 1, "color"), 0)
        tab, other_ret = finite_table(prog, c2ch, subj, alt_subject=("param", 1, "color"))
        for k, ret in tab.items():
            if ret[0] == "const" and isinstance(ret[1], str):
                back[k] = ret[1]
        other = other_ret[1] if other_ret is not None and other_ret[0] == "const" and isinstance(other_ret[1], str) else None
        probs = []
        if len(set(fwd.values())) != len(fwd) or None in fwd.values():
            probs.append("two pattern characters map to one colour (or a colour could not be evaluated): %s" % fwd)
        for ch, v in fwd.items():
            if back.get(v) != ch:
                probs.append("char_to_color(%r) = %r but color_to_char of that colour = %r" % (ch, v, back.get(v)))
        for v, ch in back.items():
            if fwd.get(ch) != v:
                probs.append("color_to_char(%r) = %r but char_to_color(%r) = %r" % (v, ch, ch, fwd.get(ch)))
        if ty == "BinaryColor":
            if fwd != {".": "Off", "#": "On"}:
                probs.append("binary table must be '.'=Off '#'=On, found %s" % fwd)
        else:
            if sorted(fwd) != sorted(RGB8):
                probs.append("RGB pattern characters must be KRGBYMCW, found %s" % sorted(fwd))
            if other != "?":
                probs.append("colours outside the table must print as '?', found %r" % other)
            if "?" in back.values():
                probs.append("a table colour prints as '?'")
            # the colour named by each letter: channel on/off pattern via MAX constants
            mx = rgb_max(prog, impl["self_ty"]["adt"])
            if mx is not None:
                for ch, v in fwd.items():
                    exp = 0
                    for on, (m, sh) in zip(RGB8[ch], mx):
                        exp |= (m if on else 0) << sh
                    if v != exp:
                        probs.append("%r must be the colour with channels %s at full scale (storage %#x), found %#x" % (ch, RGB8[ch], exp, v if isinstance(v, int) else -1))
            else:
                probs.append("cannot derive channel layout for " + ty)
        rep.check(not probs, "R20.1", ty, "; ".join(probs[:3]), at=c2c.span, fn=c2c.path, detail={"char_to_color": {k: v for k, v in fwd.items()}, "color_to_char": {str(k): v for k, v in back.items()}})
        if ty in ("Rgb565", "BinaryColor"):
            rep.sample({"rule": "R20.1", "type": ty, "char_to_color": fwd, "color_to_char": {str(k): v for k, v in back.items()}, "other": other})
    check_draw_pixel(prog, rep)
    check_indexing(prog, rep)
    check_affected_area(prog, rep)
    check_pattern_space(prog, rep)
    check_diff(prog, rep)
    check_eq(prog, rep)
    check_writers(prog, rep)
    # R20.4: any native fill_* of MockDisplay must pair streams with the caller's area (shared rule R03.6)
    from rules.c03 import zip_rule_everywhere
    zip_rule_everywhere(prog, rep, only_adt=MD, rule="R20.4", floor=0)


def _ordc(t):
    """character constants as their code points"""
    if t[0] == "const" and isinstance(t[1], str) and len(t[1]) == 1:
        return ("const", ord(t[1]))
    return t


def finite_table(prog, f, subject, alt_subject=None):
    """{key: returned tree} of a function that decides on `subject` alone: key = the integer / char code the
    subject equals, or the variant name it has; plus the result for everything else (only != facts)."""
    from mirq.paths import Paths, Unsupported
    if not hasattr(prog, "_c20_paths"):
        prog._c20_paths = Paths(prog)
    table, default = {}, None
    try:
        summs = prog._c20_paths.of(f)
    except Unsupported:
        return {}, None
    for sm in summs:
        keys = []
        only_ne = True
        for fct in sm.facts:
            a_, b_ = (_ordc(strip_refs(x)) if isinstance(x, tuple) and x and isinstance(x[0], str) and x[0] not in ("not", "any") else x for x in fct[1:3])
            if fct[0] == "eq" and (a_ in (subject, alt_subject) or b_ in (subject, alt_subject)):
                c = b_ if a_ in (subject, alt_subject) else a_
                if c[0] == "const" and isinstance(c[1], int):
                    keys.append(c[1])
                only_ne = False
            elif fct[0] == "variant" and fct[1] in (subject, alt_subject):
                keys += list(fct[2]) if len(fct[2]) == 1 else []
                only_ne = False
            elif fct[0] == "ne" and (a_ in (subject, alt_subject) or b_ in (subject, alt_subject)):
                pass
            elif fct[0] == "switch" and a_ in (subject, alt_subject) and fct[2] and fct[2][0] == "not":
                pass   # none of the listed values
            else:
                only_ne = False
                keys = None
                break
        if keys:
            for k in keys:
                table[k] = sm.ret
        elif keys is not None and only_ne:
            default = sm.ret
    return table, default


def rgb_max(prog, adt):
    """[(max, shift)] for r, g, b of an rgb colour type from its inherent consts (R_SHIFT... are macro-local):
    derive from RgbColor::MAX_* consts and the documented order (Rgb: R high; Bgr: B high)."""
    consts = None
    for i in prog.impls.values():
        if i.get("trait") == "embedded_graphics_core::pixelcolor::rgb_color::RgbColor" and i["self_ty"].get("adt") == adt:
            consts = i["consts"]
    if consts is None:
        return None
    try:
        mr, mg, mb = consts["MAX_R"]["v"], consts["MAX_G"]["v"], consts["MAX_B"]["v"]
    except Exception:
        return None
    bl = lambda m: m.bit_length()
    name = adt.split("::")[-1]
    if name.startswith("Rgb"):
        return [(mr, bl(mg) + bl(mb)), (mg, bl(mb)), (mb, 0)]
    return [(mr, 0), (mg, bl(mr)), (mb, bl(mr) + bl(mg))]


def check_gray(prog, rep, ty, c2c, c2ch):
    maxl = {"Gray2": 3, "Gray4": 15, "Gray8": 255}[ty]
    o1 = Origins(c2c)
    radix_in = None
    mult = 1
    for bi in sorted(o1.cfg.live_blocks()):
        t = c2c.body["blocks"][bi]["t"]
        if t and t["k"] == "call" and t["f"].get("name") == "to_digit":
            a = o1.term_args(bi)
            radix_in = a[1][1] if a[1][0] == "const" else None
        if t and t["k"] == "call" and t["f"].get("name") == "new" and "Gray" in t["f"].get("path", ""):
            a = strip_refs(o1.term_args(bi)[0])
            from rules.c10 import fold
            a = fold(a)
            m = match(a, ("bin", "Mul", "?d", ("const", "?k")))
            if m is not None:
                mult = m["?k"]
                a = m["?d"]
            ok_src = any(n[0] == "call" and n[1].endswith("to_digit") for n in walk(a))
            rep.check(ok_src, "R20.1", ty + ":new-arg", "the gray value must be the parsed digit; found %s" % show(a), at=c2c.span, fn=c2c.path)
    o2 = Origins(c2ch)
    radix_out = None
    src_ok = False
    upper = False
    for bi in sorted(o2.cfg.live_blocks()):
        t = c2ch.body["blocks"][bi]["t"]
        if t and t["k"] == "call" and t["f"].get("name") == "from_digit":
            a = o2.term_args(bi)
            radix_out = a[1][1] if a[1][0] == "const" else None
            src_ok = any(n[0] == "call" and n[1].endswith("::luma") for n in walk(a[0]))
            if ty == "Gray8":
                from rules.c10 import fold
                src_ok = src_ok and match(fold(strip_refs(a[0])), ("bin", "BitAnd", "_", ("const", 15))) is not None
        if t and t["k"] == "call" and t["f"].get("name") == "to_ascii_uppercase":
            upper = True
    want_radix = 16 if ty == "Gray8" else maxl + 1
    probs = []
    if radix_in != want_radix or radix_out != want_radix:
        probs.append("radix must be %d in both directions (found %s / %s)" % (want_radix, radix_in, radix_out))
    if not src_ok:
        probs.append("color_to_char must print the luma digit")
    if not upper:
        probs.append("color_to_char must be upper case (patterns use upper-case hex digits)")
    if ty == "Gray8":
        if mult != 0x11:
            probs.append("Gray8 digits must be scaled by 0x11, found %r" % mult)
        # '?' exactly when lower != upper nibble
        ok_q = False
        for lits, ret, _ in decisions(c2ch):
            if ret == ("const", "?"):
                from rules.c10 import fold
                for d, lit in lits:
                    d = fold(strip_refs(d))
                    if match(d, ("bin", "Ne", ("bin", "BitAnd", "?l", ("const", 15)), ("bin", "Shr", "?l", ("const", 4)))) is not None and lit_truth(lit) is True:
                        ok_q = True
                    if match(d, ("bin", "Eq", ("bin", "BitAnd", "?l", ("const", 15)), ("bin", "Shr", "?l", ("const", 4)))) is not None and lit_truth(lit) is False:
                        ok_q = True
        if not ok_q:
            probs.append("Gray8 must print '?' exactly when the two nibbles differ")
    elif mult != 1:
        probs.append("digit must not be scaled for " + ty)
    rep.check(not probs, "R20.1", ty, "; ".join(probs), at=c2c.span, fn=c2c.path, detail={"radix_in": radix_in, "radix_out": radix_out, "scale": mult})


def check_draw_pixel(prog, rep):
    dp = prog.method1(MD, "draw_pixel", None)
    cfg = CFG(dp.body)
    fi = lambda n: field_index(prog, MD, n)
    self_f = lambda n: ("field", ("param", 1, "self"), fi(n))
    blocks = dp.body["blocks"]

    def outcome(b):
        t = blocks[b]["t"]
        if t and t["k"] == "return":
            return "return"
        if t and t["k"] == "call" and t["t"] is None:
            return "panic"
        return None
    paths = enum_paths(cfg, 0, lambda b: outcome(b) is not None)
    table = {}
    for path in paths:
        po = Origins(dp, path=path)
        lits = path_conditions(dp, path, po)
        atoms = {}
        for d, lit in lits:
            d = strip_refs(d)
            tv = lit_truth(lit)
            if match(d, ("call", "*Rectangle::contains", "_", ("_", ("param", 2, "point")))) is not None or \
                    match(d, ("un", "Not", ("call", "*Rectangle::contains", "_", ("_", ("param", 2, "point"))))) is not None:
                neg = d[0] == "un"
                atoms["inside"] = (not tv) if neg else tv
            elif d in (self_f("allow_out_of_bounds_drawing"), ("un", "Not", self_f("allow_out_of_bounds_drawing"))):
                atoms["allow_oob"] = (not tv) if d[0] == "un" else tv
            elif d in (self_f("allow_overdraw"), ("un", "Not", self_f("allow_overdraw"))):
                atoms["allow_overdraw"] = (not tv) if d[0] == "un" else tv
            elif any(n[0] == "call" and n[1].endswith("is_some") for n in walk(d)) and any(n[0] == "call" and n[1].endswith("get_pixel") for n in walk(d)):
                atoms["occupied"] = tv
            elif any(n[0] == "call" and n[1].endswith("is_none") for n in walk(d)) and any(n[0] == "call" and n[1].endswith("get_pixel") for n in walk(d)):
                atoms["occupied"] = not tv
            elif d[0] == "discr" and strip_refs(d[1])[0] == "call" and strip_refs(d[1])[1].endswith("get_pixel") and isinstance(lit, tuple) and lit:
                # `match self.get_pixel(point) { Some(_) => .., None => .. }`: Option's discriminant, None = 0, Some = 1
                if lit[0] == "not":
                    atoms["occupied"] = 1 not in lit[1:]
                elif lit[0] == "any":
                    atoms["?" + show(d, maxd=3)] = tv
                else:
                    atoms["occupied"] = 1 in lit
            else:
                atoms["?" + show(d, maxd=3)] = tv
        stores = [b for b in path if blocks[b]["t"] and blocks[b]["t"]["k"] == "call" and blocks[b]["t"]["f"].get("name") in ("set_pixel_unchecked", "set_pixel")]
        out = outcome(path[-1])
        if out == "return":
            out = "store" if stores else "silent"
        table[tuple(sorted(atoms.items()))] = out
    # evaluate the extracted table against the specification on all 16 valuations
    probs = []

    def lookup(val):
        res = set()
        for atoms, out in table.items():
            if all(val.get(k) == v for k, v in atoms if not k.startswith("?")) and not any(k.startswith("?") for k, _ in atoms):
                res.add(out)
        return res
    unknown = [a for atoms in table for a, _ in atoms if a.startswith("?")]
    if unknown:
        probs.append("unrecognised condition in draw_pixel: %s" % unknown[:2])
    for inside in (True, False):
        for oob in (True, False):
            for od in (True, False):
                for occ in (True, False):
                    val = dict(inside=inside, allow_oob=oob, allow_overdraw=od, occupied=occ)
                    if not inside:
                        want = "silent" if oob else "panic"
                    elif not od and occ:
                        want = "panic"
                    else:
                        want = "store"
                    got = lookup(val)
                    if got != {want}:
                        probs.append("for %s draw_pixel must %s, table gives %s" % (val, want, sorted(got)))
    rep.check(not probs, "R20.2", "draw_pixel", "; ".join(probs[:3]), at=dp.span, fn=dp.path, detail={str(k): v for k, v in table.items()})
    rep.sample({"rule": "R20.2", "decision_table": {", ".join("%s=%s" % kv for kv in k): v for k, v in table.items()}})
    # the store writes Some(color) at `point`
    o = Origins(dp)
    good = False
    for bi in sorted(o.cfg.live_blocks()):
        t = blocks[bi]["t"]
        if t and t["k"] == "call" and t["f"].get("name") in ("set_pixel_unchecked", "set_pixel"):
            a = [strip_refs(x) for x in o.term_args(bi)]
            good = a[1] == ("param", 2, "point") and match(a[2], ("agg", "*Option::Some", (("param", 3, "color"),))) is not None
    rep.check(good, "R20.2", "draw_pixel:store", "draw_pixel must store Some(color) at `point`", at=dp.span, fn=dp.path)
    # draw_iter forwards every pixel to draw_pixel
    di = prog.method1(MD, "draw_iter", "embedded_graphics_core::draw_target::DrawTarget")
    o = Origins(di)
    # in the function itself or in the closure it hands to for_each (loops / for_each walked once: one item, one call)
    from mirq.paths import Paths as _P, Unsupported as _U
    n_calls, ok_args = 0, True
    try:
        for sm in _P(prog, inline=lambda g: prog.is_new(g), loops="once").of(di):
            cs = [e[1] for e in sm.effects if e[0] == "call" and e[1][1].split("::")[-1] == "draw_pixel"]
            n_calls = max(n_calls, len(cs))
            for c in cs:
                # the point and colour of the item: payload of the iteration, fields 0 / 1 of the Pixel
                ok_args = ok_args and len(c[3]) == 3 and all(any(n[0] in ("payload", "arg") or (n[0] == "call" and n[1].split("::")[-1] == "next") for n in walk(a)) for a in c[3][1:])
    except _U:
        n_calls = 0
    if n_calls == 0:
        fam = [di] + list(prog.closures_of.get(di.id, []))
        n_calls = sum(1 for g in fam for b in g.body["blocks"] if b["t"] and b["t"]["k"] == "call" and b["t"]["f"].get("name") == "draw_pixel")
    rep.check(n_calls == 1 and ok_args, "R20.2", "draw_iter", "MockDisplay::draw_iter must forward each pixel to draw_pixel", at=di.span, fn=di.path)


def check_indexing(prog, rep):
    """get_pixel / set_pixel / set_pixel_unchecked address the same cell: pixels[x + y * SIZE] (path summaries; one of
    them may delegate to another)."""
    from rules.c10 import fold
    from mirq.paths import Paths, Unsupported
    from mirq.poly import normal_form
    from mirq.origin import mk_bin
    P_ = Paths(prog, inline=lambda g: prog.is_new(g) or (g.name in ("get_pixel", "set_pixel", "set_pixel_unchecked") and g.path.startswith(MD)))
    px = ("field", ("param", 1, "self"), field_index(prog, MD, "pixels"))
    ok = True
    shown = {}
    for nm in ("get_pixel", "set_pixel", "set_pixel_unchecked"):
        f = prog.method1(MD, nm, None)
        idxs = set()
        try:
            for sm in P_.of(f):
                for e in sm.writes():
                    if e[1][0] == "index" and e[1][1] == px:
                        idxs.add(e[1][2])
                    else:
                        idxs.add(("unknown", show(e[1], maxd=3)))
                if nm == "get_pixel":
                    for n in walk(sm.ret):
                        if n[0] == "index" and n[1] == px:
                            idxs.add(n[2])
        except Unsupported as e:
            idxs.add(("unknown", str(e)))
        pt = ("param", 2, f.body["locals"][2].get("name"))
        want = mk_bin("Add", ("field", pt, 0), mk_bin("Mul", ("field", pt, 1), ("const", 64)))
        norm = lambda t: normal_form(fold(subst_size(t)))
        shown[nm] = [show(fold(i)) if i[0] != "unknown" else i[1] for i in idxs]
        good = len(idxs) >= 1 and all(i[0] != "unknown" and norm(i) is not None and norm(i) == norm(want) for i in idxs)
        ok = ok and good
    rep.check(ok, "R20.3", "cell-index", "get_pixel, set_pixel and set_pixel_unchecked must all address pixels[x + y*SIZE]; found %s" % shown, detail=shown)


def subst_size(t):
    from mirq.origin import subst
    return subst(t, lambda n: ("const", 64) if n[0] == "const" and isinstance(n[1], str) and "SIZE" in n[1] else None)


def check_affected_area(prog, rep):
    """R20.3 affected_area = with_corners(component-wise minimum, component-wise maximum) of the touched cells.
    Rectangle::with_corners orders its corners itself, so which accumulator is handed over first does not matter; what
    matters (and is shape independent: fold with closures, a loop with two accumulators, a small accumulator struct) is
    that in the function, its closures and the helpers introduced for it there is exactly one component_min and one
    component_max accumulation, both fed with a point of the display, that exactly one with_corners call combines two
    different values, and that cells are tested for being touched."""
    aa = prog.method1(MD, "affected_area", None)
    fam = [aa] + prog.new_helpers_of(aa)
    i = 0
    while i < len(fam):
        fam.extend(c for c in prog.closures_of.get(fam[i].id, []) if c not in fam)
        i += 1
    n = {"component_min": 0, "component_max": 0, "with_corners": 0}
    distinct = True
    tests_touched = False
    for g in fam:
        org = None
        for bi, b in enumerate(g.body["blocks"]):
            t = b["t"]
            if t and t["k"] == "call":
                nm = t["f"].get("name")
                p_ = (t["f"].get("resolved") or t["f"]).get("path", "")
                if nm in ("component_min", "component_max") and "Point" in p_:
                    n[nm] += 1
                if nm == "with_corners" and "Rectangle" in p_:
                    n[nm] += 1
                    org = org or Origins(g)
                    a_ = [strip_refs(x) for x in org.term_args(bi)]
                    distinct = distinct and len(a_) == 2 and a_[0] != a_[1]
                if nm in ("is_none", "is_some", "filter_map", "flatten", "map") and "option" in p_.lower():
                    tests_touched = True
            if t and t["k"] == "switch":
                tests_touched = True   # a match on the cell (Some / None)
    ok = n == {"component_min": 1, "component_max": 1, "with_corners": 1} and distinct and tests_touched
    rep.check(ok, "R20.3", "affected_area", "affected_area must combine exactly one component_min and one component_max accumulation over the touched cells with Rectangle::with_corners; found %s%s" % (n, "" if distinct else ", with_corners gets the same value twice"),
              at=aa.span, fn=aa.path, detail=n)


def check_pattern_space(prog, rep):
    """' ' <-> None in from_pattern: the character-to-pixel step (a closure or a function) maps ' ' to None."""
    fp = prog.method1(MD, "from_pattern", None)
    ok = False
    fam = [fp]
    i = 0
    while i < len(fam):
        fam.extend(prog.closures_of.get(fam[i].id, []))
        i += 1
    # function items handed to map(..) by from_pattern count as well
    for g in list(fam):
        for b in g.body["blocks"]:
            for s_ in b["s"]:
                for o in (s_.get("rv", {}).get("ops") or []):
                    pass
        for b in g.body["blocks"]:
            t = b["t"]
            if t and t["k"] == "call":
                for a_ in t["args"]:
                    c = a_.get("const")
                    if c and isinstance(c.get("ty"), dict) and "fndef" in c["ty"]:
                        for h in prog.by_path.get(c["ty"]["fndef"], []):
                            if h.body and h.crate == "embedded_graphics" and h not in fam:
                                fam.append(h)
    # helpers introduced by an edit that from_pattern (or its closures) call
    for h in prog.new_helpers_of(fp):
        if h not in fam:
            fam.append(h)
            fam.extend(c for c in prog.closures_of.get(h.id, []) if c not in fam)
    for g in fam[1:]:
        nparam = 2 if g.kind == "closure" else 1
        if nparam >= len(g.body["locals"]) or g.body["argc"] < nparam:
            continue
        tab, default = finite_table(prog, g, ("param", nparam, g.body["locals"][nparam].get("name")))
        r = tab.get(32)
        if r is not None and r[0] == "agg" and str(r[1]).endswith("Option::None") and default is not None and default[0] == "agg" and str(default[1]).endswith("Option::Some"):
            ok = True
    rep.check(ok, "R20.1", "from_pattern:space", "from_pattern must map ' ' to None (untouched) and every other character to a colour", at=fp.span, fn=fp.path)


def check_diff(prog, rep):
    """diff: per cell, a colour is recorded exactly for (Some, None), (None, Some) and (Some(a), Some(b)) with a != b
    (path summaries of the loop body walked once, helpers looked through)."""
    from mirq.paths import Paths, Unsupported, variant_of, show_fact
    df = prog.method1(MD, "diff", None)
    probs = []
    table = {}
    try:
        summs = Paths(prog, loops="once", local_effects=True).of(df)
    except Unsupported as e:
        summs = []
        probs.append("cannot summarise diff(): %s" % e)
    # the per-cell decisions: (facts, point, colour) of every set_pixel in diff itself, or — when the cells are produced
    # by a closure handed to a constructor helper (`MockDisplay::from_fn(|point| ..)`) — of every return of that closure
    decisions = []
    for sm in summs:
        for e in sm.calls():
            c = e[1]
            if c[1].split("::")[-1] not in ("set_pixel_unchecked", "set_pixel") or len(c[3]) != 3:
                continue
            decisions.append((sm.facts, c[3][1], c[3][2]))
    has_cells = lambda fs: any(fct[0] == "variant" and fct[1][0] == "call" and fct[1][1].endswith("get_pixel") for fct in fs)
    if not any(has_cells(d_[0]) for d_ in decisions):
        decisions = []
        fam, i_ = [df], 0
        while i_ < len(fam):
            fam.extend(c_ for c_ in prog.closures_of.get(fam[i_].id, []) if c_ not in fam)
            i_ += 1
        for c_ in fam[1:]:
            if c_.body["argc"] != 2:
                continue
            try:
                cs = Paths(prog, loops="once").of(c_)
            except Unsupported:
                continue
            pt_ = ("param", 2, c_.body["locals"][2].get("name"))
            for sm in cs:
                r = sm.ret
                if r is not None and variant_of(r) is not None and variant_of(r)[0].endswith("Option") and any(fct[0] == "variant" and fct[1][0] == "call" and fct[1][1].endswith("get_pixel") for fct in sm.facts):
                    decisions.append((sm.facts, pt_, r))
    # all cells are compared: when diff walks points itself, they are the points of the whole display
    # (`display.bounding_box().points()` / the display-area constant), not of a rectangle it derives from the drawings
    for facts_, point, colour in decisions:
        pt = strip_refs(point)
        if pt[0] == "payload" and pt[1][0] == "call" and pt[1][1].split("::")[-1] == "next" and pt[1][3]:
            src = strip_refs(pt[1][3][0])
            while src[0] == "call" and src[1].split("::")[-1] in ("into_iter", "by_ref", "iter") and src[3]:
                src = strip_refs(src[3][0])
            if src[0] == "call" and src[1].split("::")[-1] == "points" and len(src[3]) == 1:
                area = strip_refs(src[3][0])
                whole = (area[0] == "call" and area[1].split("::")[-1] == "bounding_box") or (area[0] == "const" and "DISPLAY_AREA" in str(area[1])) \
                    or (area[0] == "call" and area[1].split("::")[-1] == "new" and "Rectangle" in area[1] and any(n_[0] == "const" and "SIZE" in str(n_[1]) for n_ in walk(area)) and not any(n_[0] == "call" and "affected_area" in n_[1] for n_ in walk(area)))
                if not whole:
                    probs.append("diff walks the points of %s instead of the whole display: cells outside it are never compared" % show(area, maxd=3)[:120])
                    break
    receivers = []
    for facts_, point, colour in decisions:
        if True:
            key = {}
            neq = None
            for fct in facts_:
                if fct[0] == "variant" and fct[1][0] == "call" and fct[1][1].endswith("get_pixel") and len(fct[1][3]) == 2 and fct[1][3][1] == point and len(fct[2]) == 1:
                    rc = strip_refs(fct[1][3][0])
                    if rc not in receivers:
                        receivers.append(rc)
                    who = "self" if receivers.index(rc) == 0 else ("other" if receivers.index(rc) == 1 else "?")
                    key[who] = fct[2][0]
                elif fct[0] in ("eq", "ne") and all(x[0] == "payload" and x[1][0] == "call" and x[1][1].endswith("get_pixel") for x in fct[1:3]):
                    neq = fct[0] == "ne"
                elif fct[0] in ("true", "false") and fct[1][0] == "call" and fct[1][1].split("::")[-1] in ("ne", "eq") and all(x[0] == "payload" for x in fct[1][3]):
                    neq = (fct[0] == "true") == (fct[1][1].split("::")[-1] == "ne")
            vo = variant_of(colour)
            k = (key.get("self"), key.get("other"), neq)
            v = vo[1] if vo else show(colour, maxd=3)
            if table.get(k, v) != v:
                probs.append("the case %s records both %s and %s" % (k, table[k], v))
            table[k] = v
    if len(receivers) != 2:
        probs.append("the cells of exactly two displays (self, other) must be compared; found %d" % len(receivers))
    want = {("Some", "None", None): "Some", ("None", "Some", None): "Some", ("Some", "Some", True): "Some", ("Some", "Some", False): "None", ("None", "None", None): "None"}
    for k, v in want.items():
        got = table.get(k)
        if got is None and v == "None":
            # the two equal cases may be one fall-through that does not look at everything
            got = next((tv for tk, tv in table.items() if all(a is None or a == b for a, b in zip(tk, k)) and tv == "None"), None)
        if got != v:
            probs.append("cells that are %s/%s%s must %s; found %s" % (k[0], k[1], "" if k[2] is None else (" and differ" if k[2] else " and are equal"), "be reported" if v == "Some" else "not be reported", got))
    rep.check(not probs, "R20.3", "diff", "; ".join(probs[:3]), at=df.span, fn=df.path, detail={str(k): v for k, v in table.items()},
              status="refuted" if table else "undecided")     # no per-point get_pixel / set_pixel at all: a shape the table extraction cannot read


def check_eq(prog, rep):
    from mirq.paths import Paths, Unsupported
    eq = prog.method1(MD, "eq", "core::cmp::PartialEq")
    ro = strip_refs(Origins(eq).return_origin())
    px = field_index(prog, MD, "pixels")
    a, b = ("field", ("param", 1, "self"), px), ("field", ("param", 2, "other"), px)
    it = lambda x: ("call", "*::iter", "_", (x,))
    ok = match(ro, ("call", "*Iterator::eq", "_", (it(a), it(b)))) is not None or match(ro, ("call", "*PartialEq>::eq", "_", (a, b))) is not None \
        or match(ro, ("call", "*::eq", "_", (a, b))) is not None
    if not ok:
        # element-wise comparison of the two arrays (both have the same fixed length): zip(..).all(|(a, b)| a == b)
        try:
            summs = Paths(prog, loops="once").of(eq)
            zipped = ("call", "*::zip", "_", (it(a), it(b)))
            good = bool(summs)
            seen = set()
            for sm in summs:
                nxt = [fct for fct in sm.facts if fct[0] == "variant" and fct[1][0] == "call" and fct[1][1].split("::")[-1] == "next"]
                if len(nxt) != 1 or match(nxt[0][1][3][0], zipped) is None or sm.effects:
                    good = False
                    continue
                item = ("payload", nxt[0][1])
                rest = [fct for fct in sm.facts if fct is not nxt[0]]
                if nxt[0][2] == ("None",):
                    good = good and not rest and sm.ret == ("const", True)
                    seen.add("end")
                else:
                    pair = {repr(("field", item, 0)), repr(("field", item, 1))}
                    if len(rest) == 1 and rest[0][0] == "ne" and {repr(rest[0][1]), repr(rest[0][2])} == pair:
                        good = good and sm.ret == ("const", False)
                        seen.add("differ")
                    elif len(rest) == 1 and rest[0][0] == "eq" and {repr(rest[0][1]), repr(rest[0][2])} == pair:
                        seen.add("same")
                    else:
                        good = False
            ok = good and seen == {"end", "differ", "same"}
        except Unsupported:
            ok = False
    rep.check(ok, "R20.3", "eq", "MockDisplay::eq must compare the two complete pixel arrays (all 64x64 cells, including their number); found %s" % show(ro, maxd=6), at=eq.span, fn=eq.path)


def check_writers(prog, rep):
    """R20.5 who may change the cells: the `pixels` array is written only by set_pixel / set_pixel_unchecked (and filled
    in by from_pattern, built by default/clone); the DrawTarget methods of MockDisplay change the display only through
    draw_pixel, which applies the out-of-bounds and overdraw checks — a native fill or clear that stores colours itself
    bypasses them."""
    fi = field_index(prog, MD, "pixels")
    DT = "embedded_graphics_core::draw_target::DrawTarget"
    writers, ctors = set(), set()
    for f in prog.fns.values():
        if not f.body:
            continue
        for b in f.body["blocks"]:
            for s_ in b["s"]:
                if s_["k"] != "assign":
                    continue
                pl = s_["place"]
                if any(isinstance(e, dict) and e.get("f") == fi for e in pl["p"]):
                    # a store through field #pixels of a value whose type is MockDisplay
                    ty = f.body["locals"][pl["l"]]["ty"]
                    while isinstance(ty, dict) and "ref" in ty:
                        ty = ty["ref"]
                    if isinstance(ty, dict) and ty.get("adt") == MD:
                        # a helper new to the tree stores on behalf of the reference functions that use it
                        for o_ in prog.owners(f):
                            writers.add(prog.fns[o_].root_fn().path.split("::")[-1] if o_ in prog.fns else f.root_fn().path.split("::")[-1])
                rv_ = s_["rv"]
                if rv_["k"] in ("ref", "rawptr") and (rv_.get("mut") or rv_["k"] == "rawptr") and any(isinstance(e, dict) and e.get("f") == fi for e in rv_["place"]["p"]):
                    # a mutable borrow of the cell array (`self.pixels[..].fill(..)`, `iter_mut()`): a store in disguise
                    ty = f.body["locals"][rv_["place"]["l"]]["ty"]
                    fresh = not (isinstance(ty, dict) and "ref" in ty) and rv_["place"]["l"] > f.body["argc"]   # a display this function is building
                    while isinstance(ty, dict) and "ref" in ty:
                        ty = ty["ref"]
                    if isinstance(ty, dict) and ty.get("adt") == MD and not fresh:
                        for o_ in prog.owners(f):
                            writers.add(prog.fns[o_].root_fn().path.split("::")[-1] if o_ in prog.fns else f.root_fn().path.split("::")[-1])
                if s_["rv"]["k"] == "agg" and s_["rv"].get("adt") == MD:
                    ctors.add(f.root_fn().path.split("::")[-1])
    rep.check(writers <= {"set_pixel", "set_pixel_unchecked", "from_pattern"} and writers & {"set_pixel", "set_pixel_unchecked"}, "R20.5", "pixel-writers",
              "the cells may be stored only by set_pixel / set_pixel_unchecked (from_pattern fills a fresh display); stored in %s" % sorted(writers), detail=sorted(writers))
    rep.check(ctors <= {"default", "clone", "new"}, "R20.5", "constructors", "MockDisplay values may be built only by default/clone; built in %s" % sorted(ctors), detail=sorted(ctors))
    impls = [i for i in prog.impls.values() if i.get("trait") == DT and isinstance(i["self_ty"], dict) and i["self_ty"].get("adt") == MD]
    rep.check(len(impls) == 1, "R20.5", "DrawTarget-impl", "expected one DrawTarget impl of MockDisplay, found %d" % len(impls), status="undecided")
    for impl in impls:
        for nm, fid in sorted(impl["fns"].items()):
            f = prog.fns.get(fid)
            if f is None or not f.body:
                continue
            fam = [f]
            i = 0
            while i < len(fam):
                fam.extend(prog.closures_of.get(fam[i].id, []))
                i += 1
            bad = []
            uses_draw_pixel = False
            for g in fam:
                for b in g.body["blocks"]:
                    t = b["t"]
                    if not (t and t["k"] == "call"):
                        continue
                    callee = t["f"].get("name")
                    path = (t["f"].get("resolved") or t["f"]).get("path", "")
                    if callee == "draw_pixel" and MD.split("::")[-1] in path:
                        uses_draw_pixel = True
                    elif callee in ("set_pixel", "set_pixel_unchecked", "set_pixels") and "mock_display" in path:
                        bad.append("calls %s" % callee)
            if f.root_fn().path.split("::")[-1] in writers:
                bad.append("stores into the pixel array itself")
            delegates = any(t_["f"].get("name") in impl["fns"] and t_["f"].get("name") != nm for g in fam for b in g.body["blocks"] for t_ in [b["t"]] if t_ and t_["k"] == "call")
            rep.check(not bad and (uses_draw_pixel or delegates), "R20.5", "DrawTarget::" + nm,
                      "MockDisplay::%s must change cells only through draw_pixel (which panics on out-of-bounds and repeated drawing when the checks are enabled); it %s" % (nm, "; ".join(bad) or "neither calls draw_pixel nor delegates to another drawing method"),
                      at=f.span, fn=f.path)


def pattern_dimensions(prog, rep):
    """R20.6 from_pattern accepts exactly the patterns that fit the display: every returning path has established
    width <= SIZE and height <= SIZE (width = length of the first row or 0, height = number of rows) and no other
    condition on the two — `Debug` prints SIZE-character rows, so a pattern of exactly SIZE columns or rows must be
    accepted for the Debug -> from_pattern round trip.  (Row-length equality and the iteration over the rows are not
    conditions on the dimensions.)"""
    from mirq.paths import Paths, Unsupported, show_fact
    from mirq.origin import subst
    fs = [f for f in prog.fns.values() if f.body and f.name == "from_pattern" and f.kind == "assoc_fn" and "mock_display" in f.id]
    if len(fs) != 1:
        rep.fail("R20.6", "from_pattern", "anchor lost (%d)" % len(fs), status="undecided")
        return
    f = fs[0]
    try:
        summs = Paths(prog, inline=lambda g: prog.is_new(g), loops="once", limit=4000).of(f)
    except Unsupported as e:
        rep.fail("R20.6", "from_pattern", "cannot summarise: %s" % e, status="undecided", at=f.span, fn=f.path)
        return
    nocast = lambda t: subst(t, lambda n: n[1] if n[0] == "cast" else None)
    pat = ("param", 1, "pattern")

    def is_h(t):
        t = strip_refs(nocast(t))
        return (t[0] == "call" and t[1].endswith("<impl [T]>::len") and len(t[3]) == 1 and strip_refs(t[3][0]) == pat) or (t[0] == "un" and t[1] == "PtrMetadata" and strip_refs(t[2]) == pat)

    def is_w(t):
        t = strip_refs(nocast(t))
        if t == ("const", 0):
            return True
        return t[0] == "call" and t[1].endswith("<impl str>::len") and len(t[3]) == 1 and strip_refs(t[3][0])[0] == "payload" and strip_refs(strip_refs(t[3][0])[1])[0] == "call" \
            and strip_refs(strip_refs(t[3][0])[1])[1].endswith("::first") and strip_refs(strip_refs(strip_refs(t[3][0])[1])[3][0]) == pat

    def mentions_dim(t):
        return any(isinstance(n, tuple) and n and isinstance(n[0], str) and n[0] in ("call", "un") and (is_h(n) or (is_w(n) and n != ("const", 0))) for n in walk(t))
    SIZE = 64
    bad, n = [], 0
    for sm in summs:
        if sm.ret is None:
            continue
        n += 1
        got_w = got_h = False
        for fc in sm.facts:
            if fc[0] == "variant":
                continue
            sides = [x for x in fc[1:] if isinstance(x, tuple) and x and isinstance(x[0], str)]
            if not any(mentions_dim(x) or (x == ("const", 0) and fc[0] == "le") for x in sides):
                continue
            if fc[0] == "le" and strip_refs(nocast(fc[2])) == ("const", SIZE) and is_w(fc[1]):
                got_w = True
                continue
            if fc[0] == "le" and strip_refs(nocast(fc[2])) == ("const", SIZE) and is_h(fc[1]):
                got_h = True
                continue
            if fc[0] in ("eq", "ne") and any(is_w(x) for x in sides) and any(strip_refs(nocast(x))[0] == "call" and strip_refs(nocast(x))[1].endswith("<impl str>::len") and not is_w(x) for x in sides):
                continue      # every row is as long as the first
            bad.append("a returning path depends on %s" % show_fact(fc)[:160])
        if not got_w or not got_h:
            bad.append("a returning path has not established %s <= %d" % ("width" if not got_w else "height", SIZE))
    rep.check(not bad and n >= 1, "R20.6", "from_pattern:dimensions", "from_pattern must accept exactly the patterns of at most SIZE x SIZE characters: %s" % ("; ".join(sorted(set(bad))[:2]) or "no returning path found"),
              at=f.span, fn=f.path, detail={"returning_paths": n})
