"""C13 — colour conversions scale to the nearest value and preserve the extremes (structural part)."""
import json
from mirq import ty_str
from mirq.origin import Origins, show, walk, decisions, lit_truth
from mirq.pat import match, find, strip_refs
from rules.c10 import fold
from mirq.paths import Paths, Unsupported, variant_of, show_fact, _norm_calls
from mirq.canon import Canon

PC = "embedded_graphics_core::pixelcolor::"
RGBT = PC + "rgb_color::RgbColor"
GRAYT = PC + "gray_color::GrayColor"
CC = PC + "conversion::convert_channel"


def short(t):
    return ty_str(t).split("::")[-1]


def unwrap(v):
    while isinstance(v, dict) and "fields" in v and "0" in v["fields"]:
        v = v["fields"]["0"]
    return v


def consts_of(prog, trait):
    out = {}
    for i in prog.impls.values():
        if i.get("trait") == trait:
            out[short(i["self_ty"])] = {k: unwrap(v.get("v")) for k, v in i["consts"].items()}
    # inherent consts of the same types (MAX_LUMA, GRAY_50 live in inherent impls)
    for i in prog.impls.values():
        if i.get("trait") is None and short(i["self_ty"]) in out:
            for k, v in i["consts"].items():
                out[short(i["self_ty"])].setdefault(k, unwrap(v.get("v")))
    return out


def run(ctx, rep):
    prog = ctx.program("default")
    rep.configs.append(getattr(ctx, "alias", "default"))
    rgb = consts_of(prog, RGBT)
    gray = consts_of(prog, GRAYT)
    rep.floor("R13", "rgb types", len(rgb), 10)
    rep.floor("R13", "gray types", len(gray), 3)

    def maxes(name):
        if name in rgb:
            return {"r": rgb[name]["MAX_R"], "g": rgb[name]["MAX_G"], "b": rgb[name]["MAX_B"]}
        if name in gray:
            return {"luma": gray[name]["MAX_LUMA"]}
        return None

    n_conv = n_calls = 0
    froms = []
    for i in prog.impls.values():
        if i.get("trait") == "core::convert::From" and i["crate"] == "embedded_graphics_core" and "from" in i["fns"]:
            f = prog.fns[i["fns"]["from"]]
            if "pixelcolor/conversion.rs" in f.span:
                froms.append((short(i["trait_args"][1]), short(i["self_ty"]), f))
    # with_rgb888 constructors
    for f in prog.fns.values():
        if f.name == "with_rgb888" and f.body and f.impl:
            froms.append(("<rgb888 args>", short(prog.impls[f.impl]["self_ty"]), f))
    for src, dst, f in sorted(froms, key=lambda x: (x[0], x[1])):
        key = "%s->%s" % (src, dst)
        ro = strip_refs(Origins(f).return_origin())
        dm = maxes(dst)
        sm = maxes(src) if src != "<rgb888 args>" else {"r": 255, "g": 255, "b": 255}
        if dst == "BinaryColor":
            check_to_binary(prog, rep, key, src, f, ro, gray)
            continue
        if src == "BinaryColor":
            check_from_binary(prog, rep, key, dst, f, ro, rgb, gray)
            continue
        if dst in gray and src in rgb:
            # rgb -> gray: Gray8::new(luma(Rgb888::from(other))).into()
            ron = _norm_calls(ro)
            m = match(ron, ("call", "*::from", "_", (("call", "*Gray8::new", "_", (("call", "*conversion::luma", "_", ("?c",)),)),)))
            other = ("param", 1, "other")
            src_ok = lambda c: (c[0] == "call" and c[1].endswith("::from") and c[3] == (other,)) or (src == "Rgb888" and c == other)
            ok = m is not None and ("From<%sgray_color::Gray8>" % PC) in ron[1] and dst in ron[1] and src_ok(m["?c"])
            if dst == "Gray8" and m is None:
                m = match(ron, ("call", "*Gray8::new", "_", (("call", "*conversion::luma", "_", ("?c",)),)))
                ok = m is not None and src_ok(m["?c"])
            ok = ok and (src == "Rgb888" or ("From<" + PC + "rgb_color::" + src + "> for " + PC + "rgb_color::Rgb888") in m["?c"][1]
                         or m["?c"][1] == "<%srgb_color::Rgb888 as core::convert::From<%srgb_color::%s>>::from" % (PC, PC, src))     # `other.into()` resolved by its type arguments
            rep.check(ok, "R13.1", key, "rgb->gray must be Gray8::new(luma(Rgb888::from(c))).into(); found %s" % show(ro, maxd=6), at=f.span, fn=f.path)
            n_conv += 1
            continue
        m = match(ro, ("call", "*::new", "_", "?args"))
        if m is None or not ro[1].endswith(dst + "::new"):
            rep.fail("R13.1", key, "conversion is not %s::new(convert_channel(..)..): %s" % (dst, show(ro, maxd=5)), status="undecided", at=f.span, fn=f.path)
            continue
        n_conv += 1
        args = ro[3]
        chans = ["r", "g", "b"] if dst in rgb else ["luma"]
        probs = []
        if len(args) != len(chans):
            probs.append("%d constructor arguments" % len(args))
        for k, (ch, a) in enumerate(zip(chans, args)):
            mm = match(a, ("call", CC, "?g", ("?v",)))
            if mm is None:
                probs.append("channel %s is not produced by convert_channel: %s" % (ch, show(a, maxd=4)))
                continue
            n_calls += 1
            g = mm["?g"]
            # source channel accessor
            if src == "<rgb888 args>":
                want_src = ("param", k + 1, ch)
                s_ok = mm["?v"] == want_src
                sch = ch
            else:
                sch = ch if (src in rgb and dst in rgb) or (src in gray and dst in gray) else ("luma" if src in gray else ch)
                s_ok = mm["?v"][0] == "call" and mm["?v"][1].endswith("::" + sch) and mm["?v"][3] == (("param", 1, "other"),) and src in mm["?v"][1]
            if not s_ok:
                probs.append("channel %s of the result is fed from %s (must be the source's %s)" % (ch, show(mm["?v"], maxd=3), sch))
            try:
                fm, tm = int(g[0]), int(g[1])
            except Exception:
                probs.append("const generics not evaluated: %r" % (g,))
                continue
            if fm != sm[sch] or tm != dm[ch]:
                probs.append("channel %s scaled with convert_channel::<%d, %d> but %s::MAX_%s = %d and %s::MAX_%s = %d (white would not map to white / wrong step)"
                             % (ch, fm, tm, src, sch.upper(), sm[sch], dst, ch.upper(), dm[ch]))
        rep.check(not probs, "R13.1", key, "; ".join(probs[:3]), at=f.span, fn=f.path)
        if key in ("Rgb565->Rgb888", "Gray4->Rgb332"):
            rep.sample({"rule": "R13.1", "conversion": key, "tree": show(ro, maxd=5)})
    rep.floor("R13.1", "conversion fns", n_conv, 140)
    rep.floor("R13.1", "convert_channel calls", n_calls, 340)

    # R13.2 identity on equal maxima
    cc = prog.fn_by_path(CC)
    ident = False
    for lits, ret, _ in decisions(cc):
        for d, lit in lits:
            if match(d, ("bin", "Ne", ("const", "?a"), ("const", "?b"))) is not None and {d[2][1], d[3][1]} == {"TO_MAX", "FROM_MAX"} and lit_truth(lit) is False and ret == ("param", 1, "value"):
                ident = True
            if match(d, ("bin", "Eq", ("const", "?a"), ("const", "?b"))) is not None and {d[2][1], d[3][1]} == {"TO_MAX", "FROM_MAX"} and lit_truth(lit) is True and ret == ("param", 1, "value"):
                ident = True
    rep.check(ident, "R13.2", "convert_channel:identity", "for FROM_MAX == TO_MAX convert_channel must return its argument unchanged (equal-depth RGB<->BGR keeps all channels)", at=cc.span, fn=cc.path)
    # scaling form on the other path: ((v * ((TO << S) / FROM)) + (1 << (S-1))) >> S, i.e. round-half-up of v*TO/FROM in fixed point
    scaled = False
    for lits, ret, _ in decisions(cc):
        r = fold(strip_refs(ret))
        m = match(r, ("bin", "Shr", ("bin", "Add", ("bin", "Mul", ("param", 1, "value"), ("bin", "Div", ("bin", "Shl", ("const", "TO_MAX"), "?s1"), ("const", "FROM_MAX"))), "?half"), "?s2"))
        if m is not None:
            s1, s2, half = m["?s1"], m["?s2"], m["?half"]
            sv = _const_int(prog, s1)
            hv = _const_int(prog, half)
            if s1 == s2 and sv is not None and hv == (1 << (sv - 1)) and sv >= 16:
                scaled = True
    rep.check(scaled, "R13.2", "convert_channel:form", "convert_channel must compute (v * ((TO_MAX << S) / FROM_MAX) + (1 << (S-1))) >> S with one S >= 16 (rounding constant = half a step)", at=cc.span, fn=cc.path, status="undecided")

    # R13.3 luma
    lu = prog.fn_by_path(PC + "conversion::luma")

    def extract(ro):
        m = match(ro, ("bin", "Div", ("bin", "Add", "?sum", ("const", "?round")), ("const", "?div")))
        coeff = {}
        ok = m is not None
        if ok:
            def terms(t):
                mm = match(t, ("bin", "Add", "?a", "?b"))
                if mm is not None and match(t, ("bin", "Mul", "_", ("const", "_"))) is None:
                    return terms(mm["?a"]) + terms(mm["?b"])
                return [t]
            for t in terms(m["?sum"]):
                mm = match(t, ("bin", "Mul", "?x", ("const", "?k")))
                if mm is None:
                    ok = False
                    continue
                acc = [n[1].split("::")[-1] for n in walk(mm["?x"]) if n[0] == "call" and n[1].endswith(("::r", "::g", "::b"))]
                if len(acc) != 1 or not any(n[0] == "param" and n[1] == 1 for n in walk(mm["?x"])):
                    ok = False
                    continue
                coeff[acc[0]] = mm["?k"]
            ok = ok and set(coeff) == {"r", "g", "b"} and sum(coeff.values()) == m["?div"] and m["?round"] * 2 == m["?div"] and coeff["g"] > coeff["r"] > coeff["b"]
        return ok, coeff
    ro = fold(strip_refs(Origins(lu).return_origin()))
    ok, coeff = extract(ro)
    if len(coeff) != 3:
        # an iterator chain / array `map` over the channels: the single path summary carries the sum it stands for
        # (A.9: sequences of statically known elements)
        try:
            from mirq import paths as _pp
            ss = _pp.Paths(prog, inline=lambda g: prog.is_new(g)).of(lu)
            if len(ss) == 1 and not ss[0].facts and not ss[0].effects:
                r2 = fold(strip_refs(ss[0].ret))
                while r2[0] == "cast":
                    r2 = r2[1]
                ok2, coeff2 = extract(r2)
                if len(coeff2) == 3:
                    ro, ok, coeff = r2, ok2, coeff2
        except _pp.Unsupported:
            pass
    rep.check(ok, "R13.3", "luma", "luma must be (kr*r + kg*g + kb*b + div/2) / div with kr+kg+kb = div (gray in -> same gray out) and kg > kr > kb; found coefficients %s in %s" % (coeff, show(ro, maxd=8)),
              at=lu.span, fn=lu.path, detail=coeff, status="refuted" if len(coeff) == 3 else "undecided")   # no coefficients: a shape the extraction cannot read (an iterator chain, a loop)
    rep.sample({"rule": "R13.3", "luma_coefficients": coeff})

    # GRAY_50 constants
    for name, cs in sorted(gray.items()):
        v = cs.get("GRAY_50")
        # stored luma: field 0 of the struct
        want = (cs["MAX_LUMA"] + 1) // 2
        rep.check(v == want, "R13.4", "GRAY_50:" + name, "%s::GRAY_50 luma must be (MAX_LUMA+1)/2 = %d (On exactly for the upper half), found %r" % (name, want, v))
    # bool -> BinaryColor and map_color
    mc = prog.fn_by_path(PC + "binary_color::BinaryColor::map_color")
    BC_PRED = lambda g: g.name in ("is_on", "is_off") and "BinaryColor" in g.path     # `if self.is_on()` for `match self`
    P0 = Paths(prog, inline=lambda g: prog.is_new(g) or BC_PRED(g))
    table = {}
    try:
        for sm in P0.of(mc):
            vs = [fct[2] for fct in sm.facts if fct[0] == "variant" and fct[1] == ("param", 1, "self")]
            if len(vs) == 1 and len(vs[0]) == 1 and len(sm.facts) == 1:
                table[vs[0][0]] = sm.ret
            else:
                table["?"] = sm.ret
    except Unsupported:
        pass
    ok = table == {"Off": ("param", 2, "value_off"), "On": ("param", 3, "value_on")}
    rep.check(ok, "R13.4", "map_color", "map_color must return its first value for Off and its second for On; found %s" % {k: show(v) for k, v in table.items()}, at=mc.span, fn=mc.path)
    fb = [f for f in prog.fns.values() if f.name == "from" and f.impl and prog.impls[f.impl].get("trait") == "core::convert::From" and short(prog.impls[f.impl]["self_ty"]) == "BinaryColor"
          and ty_str(prog.impls[f.impl]["trait_args"][1]) == "bool"]
    if len(fb) == 1:
        t = {}
        try:
            for sm in P0.of(fb[0]):
                vo = variant_of(sm.ret)
                tv = [fct[0] for fct in sm.facts if fct[0] in ("true", "false") and fct[1] == ("param", 1, "value")]
                t[tv[0] == "true" if len(tv) == 1 and len(sm.facts) == 1 else None] = vo[1] if vo else show(sm.ret, maxd=3)
        except Unsupported:
            pass
        rep.check(t == {True: "On", False: "Off"}, "R13.4", "bool->BinaryColor", "true must map to On and false to Off; found %s" % t, at=fb[0].span, fn=fb[0].path)
    else:
        rep.fail("R13.4", "bool->BinaryColor", "anchor lost (%d)" % len(fb), status="undecided")


def _const_int(prog, t):
    if t[0] == "const" and isinstance(t[1], int):
        return t[1]
    if t[0] == "const" and isinstance(t[1], str):
        # unevaluated named const, e.g. convert_channel::SHIFT<..>
        name = t[1].split("<")[0]
        c = prog.by_path.get(name, [])
        if len(c) == 1 and isinstance(c[0].d.get("v"), int):
            return c[0].d["v"]
    return None


def _paths(prog):
    if not hasattr(prog, "_c13_paths"):
        prog._c13_paths = Paths(prog, inline=lambda g: prog.is_new(g) or g.path.endswith("BinaryColor::map_color") or ("From<bool>" in g.path and "BinaryColor" in g.path)
                                or (g.name in ("is_on", "is_off") and "BinaryColor" in g.path))
    return prog._c13_paths


def _cval(t):
    if t[0] == "const" and isinstance(t[1], str) and t[1].startswith("val:"):
        return unwrap(json.loads(t[1][4:]))
    return None


def check_to_binary(prog, rep, key, src, f, ro, gray):
    """On exactly for the upper half: every path returning On has established threshold <= luma, every path
    returning Off luma < threshold (path summaries; `>=`, `!(.. < ..)`, `if`/`match`/`.into()` spellings alike)."""
    try:
        summs = _paths(prog).of(f)
    except Unsupported as e:
        rep.fail("R13.4", key, "cannot summarise: %s" % e, status="undecided", at=f.span, fn=f.path)
        return
    color = ("param", 1, "color")
    if src in gray:
        def is_l(t):
            return t[0] == "call" and t[1].endswith("::luma") and t[3] == (color,)

        def is_thr(t):
            if t[0] == "call" and t[1].endswith("::luma") and len(t[3]) == 1:
                v = _cval(t[3][0])
                return v is not None and v == gray[src].get("GRAY_50") or (t[3][0][0] == "const" and "GRAY_50" in str(t[3][0][1]))
            return t == ("const", gray[src].get("GRAY_50"))
        what = "gray->binary must be luma >= GRAY_50.luma()"
        THR = gray[src].get("GRAY_50") if isinstance(gray[src].get("GRAY_50"), int) else 1 << 20
    else:
        THR = 128
        def is_l(t):
            if not (t[0] == "call" and t[1].endswith("conversion::luma") and len(t[3]) == 1):
                return False
            c = t[3][0]
            if src == "Rgb888" and c == color:
                return True
            return c[0] == "call" and c[1].endswith("::from") and "Rgb888" in c[1] and c[3] == (color,)

        def is_thr(t):
            return t == ("const", 128)
        what = "rgb->binary must be luma(Rgb888::from(c)) >= 128 (the rounded luma, upper half of 0..=255)"
    bad = []
    seen = set()
    for sm in summs:
        vo = variant_of(sm.ret)
        if vo is None or not vo[0].endswith("BinaryColor") or sm.effects:
            bad.append("a path returns %s" % show(sm.ret, maxd=4))
            continue
        fs = [tuple(fold(x) if isinstance(x, tuple) else x for x in fct) for fct in sm.facts]
        # the luma L is an unsigned value: each fact L < c / c <= L / .. narrows [lo, hi]; a path whose range is empty
        # cannot be taken (the `0 <= L` test of a range pattern `0..=127` failing, say); a threshold-sided range decides
        lo, hi, other, thr_seen = 0, None, [], False
        for fct in fs:
            rel = fct[0]
            if rel in ("lt", "le") and is_l(fct[1]) and (is_thr(fct[2]) or (fct[2][0] == "const" and isinstance(fct[2][1], int))):
                c = "T" if is_thr(fct[2]) else fct[2][1]
                up = (c, -1 if rel == "lt" else 0)
                hi = up if hi is None else min(hi, up, key=lambda z: (z[0] if z[0] != "T" else THR) + z[1])
                thr_seen = thr_seen or c == "T"
            elif rel in ("lt", "le") and is_l(fct[2]) and (is_thr(fct[1]) or (fct[1][0] == "const" and isinstance(fct[1][1], int))):
                c = "T" if is_thr(fct[1]) else fct[1][1]
                dn = (c, 1 if rel == "lt" else 0)
                val = lambda z: (z[0] if z[0] != "T" else THR) + z[1]
                lo = dn if (lo == 0 or val(dn) > val(lo if lo != 0 else (0, 0))) else lo
                thr_seen = thr_seen or c == "T"
            else:
                other.append(fct)
        val = lambda z: (z[0] if z[0] != "T" else THR) + z[1]
        lo_v = 0 if lo == 0 else val(lo)
        hi_v = None if hi is None else val(hi)
        if hi_v is not None and lo_v > hi_v:
            continue   # infeasible path
        seen.add(vo[1])
        if other:
            bad.append("%s depends on %s" % (vo[1], "; ".join(show_fact(x) for x in other[:2])))
        elif vo[1] == "On" and not (lo_v >= THR):
            bad.append("On is returned when %s" % ("; ".join(show_fact(x) for x in sm.facts) or "always"))
        elif vo[1] == "Off" and not (hi_v is not None and hi_v <= THR - 1):
            bad.append("Off is returned when %s" % ("; ".join(show_fact(x) for x in sm.facts) or "always"))
    rep.check(not bad and seen == {"On", "Off"}, "R13.4", key, what + "; " + "; ".join(bad[:2]), at=f.span, fn=f.path)


def check_from_binary(prog, rep, key, dst, f, ro, rgb, gray):
    try:
        summs = _paths(prog).of(f)
    except Unsupported as e:
        rep.fail("R13.4", key, "cannot summarise: %s" % e, status="undecided", at=f.span, fn=f.path)
        return
    tbl = rgb if dst in rgb else gray
    white, black = tbl[dst]["WHITE"], tbl[dst]["BLACK"]
    color = ("param", 1, "color")
    got = {}
    bad = []
    for sm in summs:
        vs = [fct[2] for fct in sm.facts if fct[0] == "variant" and fct[1] == color]
        if len(vs) != 1 or len(vs[0]) != 1 or len(sm.facts) != 1 or sm.effects:
            bad.append("a path is taken when %s" % ("; ".join(show_fact(x) for x in sm.facts) or "always"))
            continue
        got[vs[0][0]] = _cval(sm.ret)
    ok = not bad and got == {"Off": black, "On": white} and black == 0
    rep.check(ok, "R13.4", key, "binary->%s must map Off to BLACK and On to WHITE; found %s %s" % (dst, got, "; ".join(bad[:2])), at=f.span, fn=f.path)
