"""O0 of C12 (raw values are masked by construction) as a pack of its own: C10 and C11 rely on the invariant."""
from mirq.bits import BitEval
from rules import c12


def run(ctx, rep):
    prog = ctx.program("default")
    c12.raw_invariant(prog, rep, BitEval(prog), c12.raw_info(prog))
