def run(ctx, rep):
    try:
        from rules import degree
    except ImportError:
        return
    degree.run_c16(ctx, rep)
