"""C14 — text draws the glyph the font's mapping designates, in the right cell (structural part).
Also exports the font table used by C02."""
from mirq import ty_str
from mirq.origin import Origins, show, walk, decisions, dominating_guards, lit_truth
from mirq.pat import match, find, strip_refs
from mirq.expand import Expander
from mirq.origin import subst
from mirq.paths import Paths, Unsupported, passes_result, show_fact, show_eff, UNIT

MONOFONT = "embedded_graphics::mono_font::MonoFont"
STRMAP = "embedded_graphics::mono_font::mapping::StrGlyphMapping"
BIN = "embedded_graphics_core::pixelcolor::binary_color::BinaryColor"


def expand_mapping(data):
    """The NUL-marker grammar documented in mono_font/mapping.rs: '\\0' start end = inclusive range,
    any other char = itself.  Returns (chars list, problems)."""
    out, probs = [], []
    it = iter(data)
    for c in it:
        if c == "\0":
            try:
                s = next(it)
                e = next(it)
            except StopIteration:
                probs.append("incomplete range at end of mapping string")
                break
            if ord(s) > ord(e):
                probs.append("range start %r > end %r" % (s, e))
                continue
            out.extend(chr(x) for x in range(ord(s), ord(e) + 1))
        else:
            out.append(c)
    return out, probs


def font_table(prog):
    """[(fn, fields-dict)] for every const of type MonoFont with an evaluated value."""
    out = []
    for f in prog.fns.values():
        if f.kind in ("const", "assoc_const") and isinstance(f.d.get("ty"), dict) and f.d["ty"].get("adt") == MONOFONT:
            out.append((f, f.d.get("v")))
    return out


def font_fields(v):
    F = v["fields"]
    img = F["image"]["fields"]
    sz = lambda s: (s["fields"]["width"], s["fields"]["height"])
    gm = F["glyph_mapping"]
    mapping = None
    if isinstance(gm, dict) and isinstance(gm.get("dyn_of"), dict) and gm["dyn_of"].get("adt") == STRMAP:
        mf = gm["ref"]["fields"]
        mapping = (mf["data"]["str"], mf["replacement_index"])
    return dict(
        data_len=img["data"]["ref"]["bytes_len"], image=sz(img["size"]), char=sz(F["character_size"]),
        spacing=F["character_spacing"], baseline=F["baseline"],
        strike=(F["strikethrough"]["fields"]["offset"], F["strikethrough"]["fields"]["height"]),
        under=(F["underline"]["fields"]["offset"], F["underline"]["fields"]["height"]),
        mapping=mapping, mapping_ty=ty_str(gm.get("dyn_of")) if isinstance(gm, dict) else "?")


def run(ctx, rep):
    prog = ctx.program("default")
    rep.configs.append(getattr(ctx, "alias", "default"))
    fonts = font_table(prog)
    rep.floor("R14.1", "MonoFont constants", len(fonts), 280)
    try:
        from rules.builders import check_builder
        nb = check_builder(prog, rep, "R14.5", "embedded_graphics::mono_font::mono_text_style::MonoTextStyleBuilder", "embedded_graphics::mono_font::mono_text_style::MonoTextStyle")
        rep.floor("R14.5", "MonoTextStyleBuilder methods", nb, 10)
    except Exception as e:
        import traceback; traceback.print_exc()
        rep.fail("R14.5", "engine", "builder analysis crashed: %r" % (e,), status="undecided")
    # R14.6 sibling agreement inside a glyph subset: every font constant of one module (ascii, iso_8859_N, jis_x0201)
    # designates glyphs through the same mapping — the glyph images of a subset are all laid out for that subset's
    # character list, so a single constant that names another subset's mapping draws other characters' glyphs
    import collections as _c
    by_mod = _c.defaultdict(lambda: _c.defaultdict(list))
    for f, v in fonts:
        try:
            d_ = font_fields(v)
        except Exception:
            continue
        by_mod[f.path.split("::")[-2]][d_["mapping"]].append(f)
    rep.floor("R14.6", "glyph subsets", len(by_mod), 12)
    for mod, ms in sorted(by_mod.items()):
        if len(ms) == 1:
            rep.ok("R14.6", "subset-mapping:" + mod, detail={"fonts": sum(len(x) for x in ms.values())}, nontrivial=False)
            continue
        major = max(ms.items(), key=lambda kv: len(kv[1]))
        odd = [f_ for k_, fl in ms.items() if k_ != major[0] for f_ in fl]
        rep.fail("R14.6", "subset-mapping:" + mod, "%d fonts of subset %s use one glyph mapping, %s use another" % (len(major[1]), mod, ", ".join(f_.path.split("::")[-1] for f_ in odd[:3])),
                 at=odd[0].span, fn=odd[0].path)
    n_map = set()
    for f, v in sorted(fonts, key=lambda x: x[0].path):
        key = f.path.replace("embedded_graphics::mono_font::", "")
        if v is None:
            rep.fail("R14.1", key, "font constant could not be evaluated by rustc's const evaluator", status="undecided", at=f.span, fn=f.path)
            continue
        try:
            d = font_fields(v)
        except Exception as e:
            rep.fail("R14.1", key, "font constant has an unexpected shape: %r" % (e,), status="undecided", at=f.span, fn=f.path)
            continue
        (iw, ih), (cw, ch) = d["image"], d["char"]
        probs = []
        if (cw, ch) == (0, 0) and (iw, ih) == (0, 0) and f.name == "NULL_FONT":
            rep.ok("R14.1", key, detail="null font: zero character size (glyph() returns the zero rectangle)", nontrivial=False, at=f.span, fn=f.path)
            continue
        if cw == 0 or ch == 0:
            probs.append("character size %dx%d has a zero side" % (cw, ch))
        if iw < cw or ih < ch:
            probs.append("image %dx%d smaller than one character %dx%d" % (iw, ih, cw, ch))
        if d["data_len"] != ((iw + 7) // 8) * ih:
            probs.append("data length %d != bytes_per_row(%d) * %d = %d" % (d["data_len"], iw, ih, ((iw + 7) // 8) * ih))
        if d["mapping"] is None:
            probs.append("glyph mapping is not a StrGlyphMapping constant (%s): cannot enumerate" % d["mapping_ty"])
        if not probs:
            per_row, rows = iw // cw, ih // ch
            cells = per_row * rows
            chars, mp = expand_mapping(d["mapping"][0])
            probs += mp
            n_map.add(d["mapping"])
            if len(chars) > cells:
                probs.append("mapping designates %d glyphs but the atlas has only %d cells (%d per row x %d rows): glyph index %d lies outside the image"
                             % (len(chars), cells, per_row, rows, cells))
            if d["mapping"][1] >= cells:
                probs.append("replacement index %d is outside the atlas (%d cells)" % (d["mapping"][1], cells))
            if len(set(chars)) != len(chars):
                dup = sorted({c for c in chars if chars.count(c) > 1})[:3]
                probs.append("characters mapped twice: %r" % dup)
        rep.check(not probs, "R14.1", key, "; ".join(probs), at=f.span, fn=f.path,
                  detail={k: d[k] for k in ("image", "char", "data_len")})
        if len(rep.samples) < 3 and not probs:
            rep.sample({"rule": "R14.1", "font": key, "image": d["image"], "char": d["char"], "glyphs": len(chars), "cells": cells, "replacement_index": d["mapping"][1]})
    rep.floor("R14.1", "distinct mappings used by fonts", len(n_map), 12)

    check_decorations(prog, rep)
    check_roles(prog, rep)
    check_glyph(prog, rep)
    check_grammar(prog, rep)


def field_index(prog, adt, name):
    a = prog.adts[adt]
    for i, f in enumerate(a["variants"][0]["fields"]):
        if f["name"] == name:
            return i
    raise KeyError(name)


def check_decorations(prog, rep):
    """R14.2 on path summaries: on every path without a target error exactly the decorations whose effective colour is
    Some are filled, each with its own rectangle (font.<d>.get_bounding_box(position, width)) and its own colour."""
    STYLE = "embedded_graphics::mono_font::mono_text_style::MonoTextStyle"
    dd = prog.method1(STYLE, "draw_decorations", None)
    fi = lambda n: field_index(prog, STYLE, n)
    # the colour a decoration is drawn with: None -> none, TextColor -> the text colour (if any), Custom(c) -> c
    ecs = [f for f in prog.fns.values() if f.body and f.name == "effective_color" and "DecorationColor" in f.path and f.kind == "assoc_fn"]
    if len(ecs) == 1:
        ec = ecs[0]
        me_, tc_ = ("param", 1, "self"), ("param", 2, "text_color")
        table, okt = {}, True
        try:
            for sm in Paths(prog).of(ec):
                vs = [f[2] for f in sm.facts if f[0] == "variant" and strip_refs(f[1]) == me_]
                if len(vs) != 1 or len(vs[0]) != 1:
                    okt = False
                    continue
                table[vs[0][0]] = sm.ret
        except Unsupported:
            okt = False
        good = okt and set(table) == {"None", "TextColor", "Custom"} and table["None"][0] == "agg" and str(table["None"][1]).endswith("Option::None") \
            and strip_refs(table["TextColor"]) == tc_ and table["Custom"][0] == "agg" and str(table["Custom"][1]).endswith("Option::Some") \
            and any(strip_refs(n) == me_ for n in walk(table["Custom"])) and not any(strip_refs(n) == tc_ for n in walk(table["Custom"]))
        rep.check(good, "R14.2", "effective_color", "DecorationColor::effective_color must map None -> None, TextColor -> the text colour, Custom(c) -> Some(c); found %s" % {k: show(v, maxd=3) for k, v in table.items()}, at=ec.span, fn=ec.path)
    else:
        rep.check(False, "R14.2", "effective_color", "anchor lost: DecorationColor::effective_color (%d found)" % len(ecs), status="undecided")
    ff = lambda n: field_index(prog, MONOFONT, n)
    selff = lambda i: ("field", ("param", 1, "self"), i)
    font = selff(fi("font"))
    DECOS = ("strikethrough", "underline")

    def eff_colour(t):
        """-> decoration name if t is self.<d>_color.effective_color(self.text_color)"""
        if t[0] == "call" and t[1].endswith("effective_color") and len(t[3]) == 2 and t[3][1] == selff(fi("text_color")):
            for nm in DECOS:
                if t[3][0] == selff(fi(nm + "_color")):
                    return nm
        return None
    bad = []
    n_paths = 0
    try:
        # helpers introduced by an edit and the dimension helper itself are inlined: the rectangle is compared in its
        # expanded form Rectangle::new(position + Size::new(0, d.offset), Size::new(width, d.height))
        inl = lambda g: prog.is_new(g) or g.name == "get_bounding_box"
        try:
            summs = Paths(prog, inline=inl).of(dd)
        except Unsupported:
            # a `for` over an array literal of (colour, dimensions) pairs: unrolled (A.9), same summaries as the
            # straight-line code
            summs = Paths(prog, inline=inl, loops="unroll").of(dd)
    except Unsupported as e:
        summs = []
        bad.append("cannot summarise draw_decorations: %s" % e)
    DD = "embedded_graphics::mono_font::DecorationDimensions"
    dfi = {f["name"]: i for i, f in enumerate(prog.adts[DD]["variants"][0]["fields"])} if DD in prog.adts else {}
    for sm in summs:
        n_paths += 1
        tested = {}
        failed = False
        for fct in sm.facts:
            if fct[0] == "variant":
                d = eff_colour(fct[1])
                if d is not None and len(fct[2]) == 1:
                    tested[d] = fct[2][0]
                elif fct[1][0] == "call" and fct[1][1].split("::")[-1] == "fill_solid":
                    failed = failed or fct[2] == ("Err",)
                else:
                    bad.append("a path depends on %s" % show_fact(fct))
            else:
                bad.append("a path depends on %s" % show_fact(fct))
        drawn = []
        for e in sm.effects:
            c = e[1] if e[0] == "call" else None
            if c is None or c[1].split("::")[-1] != "fill_solid" or len(c[3]) != 3 or c[3][0] != ("param", 4, "target"):
                bad.append("unexpected effect %s" % show_eff(e))
                continue
            rect, colour = c[3][1], c[3][2]
            m = match(rect, ("call", "*DecorationDimensions::get_bounding_box", "_", ("?dim", ("param", 3, "position"), ("param", 2, "width"))))
            which = None
            if m is not None:
                for nm in DECOS:
                    if m["?dim"] == ("field", font, ff(nm)):
                        which = nm
            elif dfi:
                for nm in DECOS:
                    dim = ("field", font, ff(nm))
                    exp = ("call", "*Rectangle::new", "_", (("call", "*::add", "_", (("param", 3, "position"), ("call", "*Size::new", "_", (("const", 0), ("field", dim, dfi["offset"]))))),
                                                           ("call", "*Size::new", "_", (("param", 2, "width"), ("field", dim, dfi["height"])))))
                    if match(strip_refs(rect), exp) is not None:
                        which = nm
            cwhich = eff_colour(colour[1]) if colour[0] == "payload" else None
            if which is None or cwhich != which:
                bad.append("a decoration rectangle from font.%s (position/width as given) is filled with the %s colour: %s" % (which, cwhich, show_eff(e)))
            drawn.append(which)
        if not failed:
            want = sorted(d for d in DECOS if tested.get(d) == "Some")
            if sorted(tested) != sorted(DECOS):
                bad.append("a path does not test both decoration colours (%s)" % sorted(tested))
            elif sorted(x or "?" for x in drawn) != want:
                bad.append("with %s the path draws %s" % (tested, drawn))
    rep.check(not bad and n_paths >= 4, "R14.2", "decoration:both",
              "draw_decorations must draw exactly the strikethrough and the underline rectangle, each iff its colour is set, each with its own colour: %s" % "; ".join(sorted(set(bad))[:3]), at=dd.span, fn=dd.path,
              status="undecided" if any(x.startswith("cannot summarise") for x in bad) else "refuted")
    # R14.2 must-pass-through: every successful path of draw_string / draw_whitespace that advanced the position has
    # called draw_decorations(width = advance, position, target); the only paths without it are guarded by "no advance"
    TR = "embedded_graphics::text::renderer::TextRenderer"
    P2 = Paths(prog, inline=lambda g: prog.is_new(g))
    for nm in ("draw_string", "draw_whitespace"):
        ds = prog.method1(STYLE, nm, TR)
        bad, n_ok, n_dec = [], 0, 0
        try:
            summs = P2.of(ds)
        except Unsupported as e:
            rep.check(False, "R14.2", "decoration-width:" + nm, "cannot summarise %s: %s" % (nm, e), status="undecided", at=ds.span, fn=ds.path)
            continue
        for sm in summs:
            if sm.ret is None or not (sm.ret[0] == "agg" and str(sm.ret[1]).endswith("Result::Ok")):
                continue
            n_ok += 1
            decs = [e[1] for e in sm.effects if e[0] == "call" and e[1][1].endswith("::draw_decorations")]
            if nm == "draw_string":
                # ret = Ok(next + Point::new(0, offset)); the advance is next.x - position'.x
                m = match(sm.ret[2][0], ("call", "*Add>::add", "_", ("?next", "_"))) if sm.ret[2] else None
                if m is None:
                    bad.append("the returned point is not `next + (0, baseline offset)`: %s" % show(sm.ret, maxd=4))
                    continue
                nx = ("field", m["?next"], 0)
                rel = [f for f in sm.facts if f[0] in ("lt", "le", "eq", "ne") and nx in (f[1], f[2])]
                pos = [(f[2] if f[1] == nx else f[1]) for f in rel]
                if decs:
                    n_dec += 1
                    for d in decs:
                        w = d[3][1]
                        mw = match(w, ("cast", ("bin", "Sub", nx, ("field", "?pos", 0)), "u32"))
                        if mw is None or mw["?pos"] != d[3][2]:
                            bad.append("decorations must span next.x - position.x from the same position they are drawn at; found width %s at %s" % (show(w, maxd=4), show(d[3][2], maxd=3)))
                        elif match(mw["?pos"], ("call", "*Sub>::sub", "_", (("param", 3, "position"), "_"))) is None:
                            bad.append("decorations must start at the incoming position (minus the baseline offset); found %s" % show(mw["?pos"], maxd=4))
                elif not any(f[0] in ("le", "lt", "eq") and (f[1] == nx or (f[0] == "eq" and f[2] == nx)) for f in rel):
                    bad.append("a successful path [%s] returns without drawing the decorations although the text may have advanced" % "; ".join(show_fact(f)[:60] for f in sm.facts[:3]))
            else:
                width = ("param", 2, "width")
                if decs:
                    n_dec += 1
                    for d in decs:
                        if d[3][1] != width:
                            bad.append("whitespace decorations must span the given width; found %s" % show(d[3][1], maxd=4))
                elif not any((f[0] == "eq" and width in (f[1], f[2]) and ("const", 0) in (f[1], f[2])) or (f[0] == "le" and f[1] == width and f[2] == ("const", 0))
                             or (f[0] == "lt" and f[1] == width and f[2] == ("const", 1)) for f in sm.facts):
                    bad.append("a successful path [%s] returns without drawing the decorations although width != 0" % "; ".join(show_fact(f)[:60] for f in sm.facts[:3]))
        want = 4 if nm == "draw_string" else 1
        rep.check(not bad and n_dec >= want and n_ok > n_dec, "R14.2", "decoration-width" if nm == "draw_string" else "decoration-width:" + nm,
                  "%s: every successful path that advanced must have drawn the decorations over exactly the advance: %s" % (nm, "; ".join(sorted(set(bad))[:2]) or "only %d decorated successful path(s) of %d" % (n_dec, n_ok)),
                  at=ds.span, fn=ds.path, detail={"ok_paths": n_ok, "decorated": n_dec})


def check_roles(prog, rep):
    """MonoFontDrawTarget colour roles: which binary colour reaches the parent with which stored colour."""
    DT = "embedded_graphics_core::draw_target::DrawTarget"
    T = "embedded_graphics::mono_font::draw_target::MonoFontDrawTarget"
    want = {"Foreground": {"On": 0, "Off": None}, "Background": {"On": None, "Off": 0}, "Both": {"On": 0, "Off": 1}}
    impls = [i for i in prog.impls.values() if i.get("trait") == DT and i["self_ty"].get("adt") == T]
    rep.check(len(impls) == 3, "R14.3", "impls", "expected 3 DrawTarget impls of MonoFontDrawTarget, found %d" % len(impls), status="undecided")
    colors_idx = field_index(prog, T, "colors")
    P_ = Paths(prog, inline=lambda g: prog.is_new(g) or (g.name in ("is_on", "is_off") and "BinaryColor" in g.path))
    sc = ("field", ("param", 1, "self"), colors_idx)
    parent = ("field", ("param", 1, "self"), field_index(prog, T, "parent"))

    def closure_cases(clo):
        """[(facts, ret)] of a closure aggregate, captured values substituted"""
        g = prog.fns.get(clo[1][len("closure:"):])
        caps = clo[2]
        out = []
        for sm in P_.of(g):
            r = lambda n: strip_refs(caps[n[1]]) if n[0] == "upvar" and n[1] < len(caps) else None
            facts = [tuple(subst(x, r) if isinstance(x, tuple) and x and isinstance(x[0], str) and x[0] not in ("not", "any") else x for x in fct) for fct in sm.facts]
            ret = subst(sm.ret, r)
            # `colour == BinaryColor::On` (the derived == on the two-variant glyph colour) returned as a value: the
            # same two cases as `match colour { On => true, Off => false }`
            rr = strip_refs(ret)
            # a captured callable bound to `BinaryColor::is_on` / `is_off` (a selector handed to a shared helper):
            # the two cases of the predicate it names
            if rr[0] == "call" and rr[1].split("::")[-1] in ("call", "call_mut", "call_once") and len(rr[3]) == 2:
                fitem, targ = strip_refs(rr[3][0]), strip_refs(rr[3][1])
                if fitem[0] == "const" and isinstance(fitem[1], str) and fitem[1].startswith("fn:") and fitem[1].endswith(("BinaryColor::is_on", "BinaryColor::is_off")) \
                        and targ[0] == "agg" and targ[1] == "tuple" and len(targ[2]) == 1:
                    on = fitem[1].endswith("is_on")
                    arg_ = strip_refs(targ[2][0])
                    # the call of the selector itself is recorded as an effect of the closure; it is the pure predicate
                    eff_ = tuple(e for e in sm.effects if not (e[0] == "call" and e[1][1].split("::")[-1] in ("call", "call_mut", "call_once") and "::function::Fn" in e[1][1]))
                    out.append((facts + [("variant", arg_, ("On",))], ("const", on), eff_))
                    out.append((facts + [("variant", arg_, ("Off",))], ("const", not on), eff_))
                    continue
            if rr[0] == "bin" and rr[1] in ("Eq", "Ne"):
                ops = [strip_refs(rr[2]), strip_refs(rr[3])]
                lit = [o for o in ops if o[0] == "agg" and str(o[1]).rsplit("::", 1)[0].endswith("BinaryColor") and not o[2]]
                oth = [o for o in ops if o not in lit]
                if len(lit) == 1 and len(oth) == 1:
                    v = str(lit[0][1]).rsplit("::", 1)[1]
                    w = "Off" if v == "On" else "On"
                    eq = rr[1] == "Eq"
                    out.append((facts + [("variant", oth[0], (v,))], ("const", eq), sm.effects))
                    out.append((facts + [("variant", oth[0], (w,))], ("const", not eq), sm.effects))
                    continue
            out.append((facts, ret, sm.effects))
        return out

    def colour_of(t):
        m = match(t, ("field", sc, "?i"))
        return m["?i"] if m is not None else None

    def variant_sel(facts):
        vs = [fct[2] for fct in facts if fct[0] == "variant"]
        return vs[0] if len(vs) == 1 and len(facts) == 1 else (("Off", "On") if not facts else None)

    for impl in impls:
        flavour = str(impl["self_ty"]["args"][-1].get("adt", "?")).split("::")[-1]
        if flavour not in want:
            rep.fail("R14.3", "flavour:" + flavour, "unknown MonoFontDrawTarget flavour", status="undecided")
            continue
        fs = prog.fns[impl["fns"]["fill_solid"]]
        table = {}
        bad = []
        try:
            for sm in P_.of(fs):
                sel = variant_sel([fct for fct in sm.facts if not (fct[0] == "variant" and fct[1][0] == "call")])
                cs = [e[1] for e in sm.calls()]
                if sel is None or len(cs) > 1 or sm.writes() or (cs and not (cs[0][1].split("::")[-1] == "fill_solid" and cs[0][3][0] == parent and cs[0][3][1] == ("param", 2, "area"))):
                    bad.append("a path with %s does %s" % ("; ".join(show_fact(x) for x in sm.facts), "; ".join(show_eff(e) for e in sm.effects)))
                    continue
                if cs and not passes_result(sm, cs[0]):
                    bad.append("the parent's result is not returned")
                if not cs and sm.ret != ("agg", "core::result::Result::Ok", (UNIT,)):
                    bad.append("a path that draws nothing returns %s" % show(sm.ret, maxd=3))
                for v in sel:
                    used = colour_of(cs[0][3][2]) if cs else None
                    if cs and used is None:
                        used = "?"
                    if v in table and table[v] != used:
                        bad.append("%s is drawn with two different colours" % v)
                    table[v] = used
        except Unsupported as e:
            bad.append("cannot summarise: %s" % e)
        rep.check(table == want[flavour] and not bad, "R14.3", "fill_solid:" + flavour,
                  "fill_solid colour roles %s differ from the documented %s (On=text colour colors.0; Off=background) %s" % (table, want[flavour], "; ".join(bad[:2])), at=fs.span, fn=fs.path, detail=table)
        # fill_contiguous: the closures handed to filter / map decide which glyph pixels reach the parent with which colour
        fc = prog.fns[impl["fns"]["fill_contiguous"]]
        got = {}
        callee = []
        bad = []
        try:
            summs = P_.of(fc)
            for sm in summs:
                cs = [e[1] for e in sm.calls()]
                callee += [c[1].split("::")[-1] for c in cs]
                if len(cs) != 1 or sm.facts or cs[0][3][0] != parent or not passes_result(sm, cs[0]):
                    bad.append("fill_contiguous must be one unconditional call on self.parent whose result is returned")
                    continue
                stream = cs[0][3][-1]
                for n in walk(stream):
                    if n[0] == "call" and n[1].split("::")[-1] in ("filter", "map", "filter_map", "take_while", "skip_while", "skip", "take", "step_by", "rev", "chain", "zip") and n[1].startswith(("core::iter", "<")) or \
                            (n[0] == "call" and "Iterator" in n[1] and n[1].split("::")[-1] in ("filter", "map")):
                        nm = n[1].split("::")[-1]
                        clos = [a for a in n[3] if a[0] == "agg" and str(a[1]).startswith("closure:")]
                        if nm not in ("filter", "map", "filter_map") or len(clos) != 1:
                            bad.append("unexpected stream adapter %s" % nm)
                            continue
                        cases = closure_cases(clos[0])
                        if nm == "filter_map":
                            # one closure doing both: Some(Pixel(pos, colour)) for the glyph colours that are drawn
                            acc = set()
                            for facts, ret, eff in cases:
                                sel = variant_sel(facts)
                                r = strip_refs(ret)
                                if sel is None or eff:
                                    bad.append("filter_map closure not a test of the glyph colour")
                                    continue
                                if r == ("agg", "core::option::Option::None", ()):
                                    continue
                                px = r[2][0] if r[0] == "agg" and str(r[1]).endswith("Option::Some") and r[2] else None
                                if px is None or px[0] != "agg" or not str(px[1]).endswith("Pixel::Pixel") or match(px[2][0], ("field", ("param", 2, "_"), 0)) is None or colour_of(px[2][1]) is None:
                                    bad.append("filter_map closure yields %s" % show(ret, maxd=4))
                                    continue
                                acc |= set(sel)
                                for v in sel:
                                    got.setdefault("map", {})[v] = colour_of(px[2][1])
                            got["filter"] = sorted(acc)
                            continue
                        if nm == "filter":
                            acc = set()
                            for facts, ret, eff in cases:
                                sel = variant_sel(facts)
                                if sel is None or ret not in (("const", True), ("const", False)) or eff:
                                    bad.append("filter closure not a test of the glyph colour")
                                elif ret == ("const", True):
                                    acc |= set(sel)
                            got["filter"] = sorted(acc)
                        else:
                            for facts, ret, eff in cases:
                                sel = variant_sel(facts)
                                r = strip_refs(ret)
                                if r[0] == "agg" and str(r[1]).endswith("Pixel::Pixel") and len(r[2]) == 2:
                                    pos_ok = match(r[2][0], ("field", ("param", 2, "_"), 0)) is not None
                                    if not pos_ok:
                                        bad.append("map closure moves the pixel: %s" % show(r[2][0], maxd=3))
                                    r = r[2][1]
                                k = colour_of(r)
                                if sel is None or k is None or eff:
                                    bad.append("map closure does not return one of self.colors: %s" % show(ret, maxd=3))
                                    continue
                                for v in sel:
                                    got.setdefault("map", {})[v] = k
        except Unsupported as e:
            bad.append("cannot summarise: %s" % e)
        if flavour == "Foreground":
            good = got.get("filter") == ["On"] and got.get("map", {}).get("On") == 0 and set(got) == {"filter", "map"} and callee == ["draw_iter"]
        elif flavour == "Background":
            good = got.get("filter") == ["Off"] and got.get("map", {}).get("Off") == 0 and set(got) == {"filter", "map"} and callee == ["draw_iter"]
        else:
            good = got == {"map": {"On": 0, "Off": 1}} and callee == ["fill_contiguous"]
        rep.check(good and not bad, "R14.3", "fill_contiguous:" + flavour, "fill_contiguous colour roles not as documented: %s via %s %s" % (got, callee, "; ".join(sorted(set(bad))[:2])),
                  at=fc.span, fn=fc.path, detail=got)
    # construction in draw_string: Both(text, background), Foreground(text), Background(background)
    STYLE = "embedded_graphics::mono_font::mono_text_style::MonoTextStyle"
    ds = prog.method1(STYLE, "draw_string", "embedded_graphics::text::renderer::TextRenderer")
    fi = lambda n: field_index(prog, STYLE, n)
    seen = {}
    # path summaries with helpers introduced by an edit inlined: every colour adapter built anywhere on the way
    try:
        for sm in Paths(prog, inline=lambda g: prog.is_new(g)).of(ds):
            trees = [x for e in sm.effects for x in e[1:] if isinstance(x, tuple)] + ([sm.ret] if sm.ret is not None else []) + [x for f_ in sm.facts for x in f_[1:] if isinstance(x, tuple)]
            for t_ in trees:
                for n in walk(t_):
                    if n[0] == "agg" and str(n[1]).startswith("embedded_graphics::mono_font::draw_target::"):
                        nm = str(n[1]).split("::")[-1]
                        srcs = []
                        for o in n[2]:
                            f_ = None
                            for x in walk(o):
                                m = match(x, ("field", ("param", 1, "self"), "?i")) or match(x, ("field", ("deref", ("param", 1, "self")), "?i"))
                                if m is not None:
                                    f_ = m["?i"]
                            srcs.append(f_)
                        if seen.get(nm, srcs) != srcs:
                            srcs = ["conflict"]
                        seen[nm] = srcs
    except Unsupported as e:
        seen = {"?": str(e)}
    wantc = {"Both": [fi("text_color"), fi("background_color")], "Foreground": [fi("text_color")], "Background": [fi("background_color")]}
    rep.check(seen == wantc, "R14.3", "construction", "draw_string must build Both(text, background), Foreground(text), Background(background); found field indices %s, expected %s" % (seen, wantc),
              at=ds.span, fn=ds.path, detail=seen)


def check_glyph(prog, rep):
    """glyph(): cell = (index % per_row * cw, index / per_row * ch) with per_row = image.width / cw,
    guarded by cw != 0 and image.width >= cw; who-may-call new_unchecked."""
    g = prog.method1(MONOFONT, "glyph", None)
    callers = []
    for f in prog.fns.values():
        if not f.body:
            continue
        for b in f.body["blocks"]:
            t = b["t"]
            if t and t["k"] == "call" and t["f"].get("name") == "new_unchecked" and "SubImage" in t["f"].get("path", ""):
                callers.append(f.path)
    # SubImage::new may route its (intersected, see C09 R09.1) area through new_unchecked
    si_new = [f.path for f in prog.fns.values() if f.kind == "assoc_fn" and f.name == "new" and "image::sub_image::SubImage" in f.path]
    rep.check(g.path in callers and set(callers) <= {g.path} | set(si_new), "R09.1", "new_unchecked-callers", "SubImage::new_unchecked may only be called from MonoFont::glyph; callers: %s" % sorted(set(callers)), detail=callers)
    # path summaries: the empty cell exactly when a glyph cannot be cut (cw == 0 or image narrower than a glyph),
    # otherwise cell = ((i mod per_row) * cw, (i / per_row) * ch) with per_row = image.width / cw
    from rules.c10 import fold
    from mirq.poly import normal_form
    from mirq.origin import mk_bin
    cs = ("field", ("param", 1, "self"), field_index(prog, MONOFONT, "character_size"))
    cw, chh = ("field", cs, 0), ("field", cs, 1)
    Z = ("const", 0)
    try:
        summs = Paths(prog).of(g)
    except Unsupported as e:
        rep.fail("R14.5", "glyph-cell", "cannot summarise glyph(): %s" % e, status="undecided", at=g.span, fn=g.path)
        return
    bad = []
    n_cell = 0
    for sm in summs:
        m = match(sm.ret, ("call", "*SubImage::<'a, T>::new_unchecked", "_", ("?img", "?area")))
        if m is None or sm.effects or m["?img"] != ("field", ("param", 1, "self"), field_index(prog, MONOFONT, "image")):
            bad.append("a path returns %s" % show(sm.ret, maxd=3))
            continue
        area = m["?area"]
        iws = [n for fct in sm.facts for x in fct[1:] if isinstance(x, tuple) for n in walk(x) if n[0] == "field" and n[2] == 0 and n[1][0] == "call" and n[1][1].endswith("::size")]
        iw = iws[0] if iws else None
        fs = [tuple(fold(x) if isinstance(x, tuple) and x and isinstance(x[0], str) and x[0] not in ("not", "any") else x for x in fct) for fct in sm.facts]
        if match(area, ("call", "*Rectangle::zero", "_", ())) is not None:
            just = any(fct in (("eq", cw, Z), ("eq", Z, cw), ("le", cw, Z)) for fct in fs) or (iw is not None and ("lt", iw, cw) in fs)
            if not just:
                bad.append("the empty cell is returned although %s" % ("; ".join(show_fact(x) for x in sm.facts) or "nothing was tested"))
            continue
        n_cell += 1
        if not (any(fct in (("ne", cw, Z), ("ne", Z, cw), ("lt", Z, cw)) for fct in fs) and iw is not None and ("le", cw, iw) in fs):
            bad.append("a cell is cut without the guards cw != 0 and image.width >= cw (%s)" % "; ".join(show_fact(x) for x in sm.facts))
            continue
        m2 = match(fold(area), ("call", "*Rectangle::new", "_", (("call", "*Point::new", "_", ("?x", "?y")), "?size")))
        idxs = list(dict.fromkeys(n for n in walk(area) if n[0] == "call" and n[1].endswith("GlyphMapping::index")))
        if m2 is None or m2["?size"] != cs or len(idxs) != 1 or idxs[0][3] != (("field", ("param", 1, "self"), field_index(prog, MONOFONT, "glyph_mapping")), ("param", 2, "c")):
            bad.append("the cell is not Rectangle::new(Point::new(x, y), character_size) of glyph_mapping.index(c): %s" % show(area, maxd=4))
            continue
        I = idxs[0]
        per_row = mk_bin("Div", iw, cw)
        row = mk_bin("Div", I, per_row)
        want_x = [mk_bin("Mul", mk_bin("Sub", I, mk_bin("Mul", row, per_row)), cw), mk_bin("Mul", mk_bin("Rem", I, per_row), cw)]
        want_y = mk_bin("Mul", row, chh)
        nx, ny = normal_form(m2["?x"]), normal_form(m2["?y"])
        if nx is None or ny is None or not any(nx == normal_form(w) for w in want_x) or ny != normal_form(want_y):
            bad.append("cell origin x=%s y=%s is not ((i mod per_row)*cw, (i / per_row)*ch) with per_row = image.width / cw" % (show(m2["?x"], maxd=6), show(m2["?y"], maxd=6)))
    if bad or n_cell < 1:
        rep.fail("R14.5", "glyph-cell", "glyph() cell arithmetic/guards not as required: %s" % ("; ".join(sorted(set(bad))[:3]) or "no cell-producing path"), at=g.span, fn=g.path, status="undecided")
    else:
        rep.ok("R14.5", "glyph-cell", detail="cell = ((i mod per_row)*cw, i/per_row*ch), per_row = image.width/cw, cut iff cw!=0 and image.width>=cw", at=g.span, fn=g.path)


def check_grammar(prog, rep):
    """R14.4 on path summaries: StrGlyphMapping::{chars, ranges} decode the NUL-marker grammar; index() is the position
    of the first equal character in chars() with replacement_index as fallback."""
    from mirq.paths import CONTINUES, NONE, is_continues
    idx = prog.method1(STRMAP, "index", "embedded_graphics::mono_font::mapping::GlyphMapping")
    ri = ("field", ("param", 1, "self"), field_index(prog, STRMAP, "replacement_index"))
    me, cpar = ("param", 1, "self"), ("param", 2, "c")
    chars_self = ("call", "*StrGlyphMapping::<'a>::chars", "_", (me,))
    bad = []
    n_hit = n_miss = 0
    try:
        summs = Paths(prog, loops="once").of(idx)
    except Unsupported as e:
        summs = []
        bad.append("cannot summarise index(): %s" % e)
    for sm in summs:
        if sm.ret is None or any(is_continues(n) for x in [sm.ret] + [y for fct in sm.facts for y in fct[1:] if isinstance(y, tuple)] for n in walk(x)):
            continue
        nxt = [fct for fct in sm.facts if fct[0] == "variant" and fct[1][0] == "call" and fct[1][1].split("::")[-1] == "next"]
        if len(nxt) != 1 or sm.effects:
            bad.append("a path of index() does not examine exactly one item of the enumeration")
            continue
        it, names = nxt[0][1][3][0], nxt[0][2]
        while it[0] == "call" and it[1].split("::")[-1] in ("into_iter", "by_ref") and len(it[3]) == 1:
            it = it[3][0]     # `for (i, c) in self.chars().enumerate()` iterates the same iterator as `.find(..)` does
        enum = match(it, ("call", "*::enumerate", "_", (chars_self,))) is not None
        plain = match(it, chars_self) is not None
        if not (enum or plain):
            bad.append("index() searches %s, not self.chars()" % show(it, maxd=4))
            continue
        item = ("payload", nxt[0][1])
        rest = [fct for fct in sm.facts if fct is not nxt[0]]
        if names == ("None",):
            n_miss += 1
            if rest or sm.ret != ri:
                bad.append("without a matching character index() must return replacement_index; returns %s" % show(sm.ret, maxd=3))
        else:
            n_hit += 1
            ch = ("field", item, 1) if enum else item
            want_ret = ("field", item, 0) if enum else ("call", "search::position", (), (it,))
            eq = [fct for fct in rest if fct[0] == "eq" and {repr(fct[1]), repr(fct[2])} == {repr(ch), repr(cpar)}]
            if len(rest) != 1 or not eq or sm.ret != want_ret:
                bad.append("a hit must be the position of the first enumerated character equal to c; when %s returns %s" % ("; ".join(show_fact(x) for x in rest), show(sm.ret, maxd=4)))
    rep.check(not bad and n_hit >= 1 and n_miss >= 1, "R14.4", "index", "StrGlyphMapping::index must be the enumeration position in chars() with replacement_index as fallback; %s" % "; ".join(sorted(set(bad))[:2]), at=idx.span, fn=idx.path)

    for nm in ("chars", "ranges"):
        f = prog.method1(STRMAP, nm, None)
        P_ = Paths(prog)
        why = []
        good = False
        try:
            outer = P_.of(f)
            gens = [n for sm in outer for n in walk(sm.ret) if n[0] == "call" and n[1].endswith("from_fn") and n[3]]
            if len(outer) != 1 or len(gens) != 1:
                raise Unsupported("%s() is not a single from_fn generator" % nm)
            gen = gens[0][3][0]
            if not (gen[0] == "agg" and str(gen[1]).startswith("closure:")):
                raise Unsupported("generator is not a closure")
            caps = [strip_refs(c) for c in gen[2]]
            src = [k for k, c in enumerate(caps) if match(c, ("call", "*::chars", "_", (("field", me, field_index(prog, STRMAP, "data")),))) is not None]
            if len(src) != 1:
                raise Unsupported("the generator does not capture self.data.chars()")
            g = prog.fns[gen[1][len("closure:"):]]
            gs = P_.of(g)
            good = True
            n_marker = n_plain = 0
            for sm in gs:
                nexts = [fct for fct in sm.facts if fct[0] == "variant" and fct[1][0] == "call" and fct[1][1].split("::")[-1] == "next" and fct[1][3] and fct[1][3][0][0] == "upvar" and fct[1][3][0][1] == src[0]]
                other = [fct for fct in sm.facts if fct not in nexts]
                if not nexts:
                    good = False
                    why.append("a path does not read the string")
                    continue
                first = ("payload", nexts[0][1])
                marker = None
                isz = lambda t: t in (("const", 0), ("const", "\x00"))   # the NUL marker as a switch value / a char literal
                is_marker_test = lambda fct: fct[0] in ("eq", "ne") and ((fct[1] == first and isz(fct[2])) or (fct[2] == first and isz(fct[1])))
                for fct in other:
                    if is_marker_test(fct):
                        marker = fct[0] == "eq"
                stray = [fct for fct in other if not is_marker_test(fct)]
                if stray:
                    good = False
                    why.append("a path depends on %s" % show_fact(stray[0]))
                    continue
                ended = any(fct[2] == ("None",) for fct in nexts)
                if ended:
                    if sm.ret != NONE or sm.writes():
                        good = False
                        why.append("the generator must end (None, index untouched) when the string ends inside an item")
                    continue
                val = sm.ret[2][0] if sm.ret[0] == "agg" and str(sm.ret[1]).endswith("Option::Some") and sm.ret[2] else None
                rng = val
                if nm == "ranges":
                    rng = val[2][1] if val is not None and val[0] == "agg" and val[1] == "tuple" and len(val[2]) == 2 else None
                m = match(rng, ("call", "*RangeInclusive::<Idx>::new", "_", ("?s", "?e"))) if rng is not None else None
                if m is None:
                    good = False
                    why.append("an item is %s" % show(sm.ret, maxd=4))
                    continue
                if marker is True:
                    n_marker += 1
                    ok_ = len(nexts) == 3 and m["?s"] == ("payload", nexts[1][1]) and m["?e"] == ("payload", nexts[2][1]) and len({repr(x[1]) for x in nexts}) == 3
                elif marker is False:
                    n_plain += 1
                    ok_ = len(nexts) == 1 and m["?s"] == first and m["?e"] == first
                else:
                    ok_ = False
                if not ok_:
                    good = False
                    why.append("the %s item is decoded as %s..=%s" % ("marker" if marker else "plain", show(m["?s"], maxd=3), show(m["?e"], maxd=3)))
                if nm == "ranges":
                    # index: the tuple carries the old index, the captured index advances by the size of the range
                    ws = sm.writes()
                    iv = [k for k, c in enumerate(caps) if c == ("const", 0)]
                    from rules.c10 import fold
                    from mirq.poly import normal_form
                    if len(ws) != 1 or ws[0][1][0] != "upvar" or val[2][0] != ("upvar", ws[0][1][1], ws[0][1][2]):
                        good = False
                        why.append("the index of an item must be the captured counter before it is advanced")
                        continue
                    old = ("upvar", ws[0][1][1], ws[0][1][2])
                    inc = ("const", 1) if not marker else ("bin", "Add", ("bin", "Sub", ("cast", m["?e"], "usize"), ("cast", m["?s"], "usize")), ("const", 1))
                    if normal_form(fold(ws[0][2])) is None or normal_form(fold(ws[0][2])) != normal_form(fold(("bin", "Add", old, inc))):
                        good = False
                        why.append("the counter advances by %s" % show(fold(ws[0][2]), maxd=5))
            good = good and n_marker >= 1 and n_plain >= 1
        except Unsupported as e:
            good = False
            why.append(str(e))
        rep.check(good, "R14.4", nm, "StrGlyphMapping::%s must decode '\\0' start end as start..=end and any other char c as c..=c%s; %s" % (nm, " advancing the index by end-start+1 / 1" if nm == "ranges" else "", "; ".join(sorted(set(why))[:2])),
                  at=f.span, fn=f.path, status="undecided")
