"""Axis consistency (a dimension analysis): in the per-axis geometry code of the scoped functions an x-quantity (Point.x,
Size.width) is never added to, subtracted from, compared with or put in the place of a y-quantity (Point.y, Size.height).

Labels: 'X', 'Y' (definite), 'N' (axis-neutral: constants, stroke widths, diameters), 'M' (mixed or unknown: silent).
Only a *definite* X meeting a *definite* Y is reported, so values that are deliberately shared between the axes (the
worst overlap of any side, a common scale factor) never raise an alarm.  Types come from the MIR local types and the ADT
field tables, not from names."""
from mirq.origin import Origins, show, walk

POINT = "embedded_graphics_core::geometry::point::Point"
SIZE = "embedded_graphics_core::geometry::size::Size"
# comparisons are not joined: `width == height` (is it a circle?), `dx > dy` (orientation), the worst overlap of any side
# are legitimate questions across the axes; sums, differences, min/max and constructor places are not
JOINING = ("Add", "Sub", "AddWithOverflow", "SubWithOverflow")
JOIN_CALLS = ("min", "max", "saturating_sub", "saturating_add", "wrapping_sub", "wrapping_add", "checked_sub", "checked_add", "abs_diff", "clamp")
ITER_CALLS = ("next", "next_back", "into_iter", "iter", "rev", "by_ref", "clone", "skip", "take", "step_by", "peekable", "peek", "copied", "cloned")
KEEP_CALLS = ("abs", "unsigned_abs", "saturating_as", "into", "from", "try_into", "try_from", "clone", "unwrap_or", "unwrap_or_default", "unwrap")


def _deref_ty(ty):
    while isinstance(ty, dict) and "ref" in ty:
        ty = ty["ref"]
    return ty


class Axis:
    def __init__(self, prog, fn):
        self.prog, self.fn = prog, fn
        self.conflicts = []
        self._memo = {}
        self._keep = []

    # ---- types of trees (best effort) -----------------------------------------------------------------------
    def type_of(self, t):
        k = t[0]
        if k == "param":
            return _deref_ty(self.fn.body["locals"][t[1]]["ty"]) if t[1] < len(self.fn.body["locals"]) else None
        if k in ("ref", "deref", "cast") and k != "cast":
            return self.type_of(t[1])
        if k == "update":
            return self.type_of(t[1])
        if k == "phi":
            tys = [self.type_of(a) for a in t[1]]
            tys = [x for x in tys if x is not None]
            return tys[0] if tys and all(x == tys[0] for x in tys) else None
        if k == "field":
            bt = self.type_of(t[1])
            if isinstance(bt, dict) and "adt" in bt:
                a = self.prog.adts.get(bt["adt"])
                if a and a["kind"] == "struct" and t[2] < len(a["variants"][0]["fields"]):
                    return _deref_ty(a["variants"][0]["fields"][t[2]]["ty"])
            if isinstance(bt, dict) and "tuple" in bt and t[2] < len(bt["tuple"]):
                return _deref_ty(bt["tuple"][t[2]])
            return None
        if k == "agg" and isinstance(t[1], str) and "::" in t[1] and not t[1].startswith("closure:"):
            return {"adt": t[1].rsplit("::", 1)[0], "args": []}
        if k == "call":
            p = t[1]
            if p.endswith(("Point::new", "Point::zero", "Point::new_equal")) or p.endswith("::top_left") or ("Point as" in p and p.split("::")[-1] in ("add", "sub", "neg", "mul", "div", "component_min", "component_max")):
                return {"adt": POINT, "args": []}
            if p.endswith(("Size::new", "Size::zero", "Size::new_equal")) or ("Size as" in p and p.split("::")[-1] in ("add", "sub", "mul", "div", "component_min", "component_max", "saturating_add", "saturating_sub")):
                return {"adt": SIZE, "args": []}
            if p.endswith(("Size::x_axis", "Size::y_axis")):
                return {"adt": SIZE, "args": []}
            cands = [g for g in self.prog.by_path.get(p, []) if g.kind in ("fn", "assoc_fn")]
            if len(cands) == 1 and cands[0].output is not None:
                out = _deref_ty(cands[0].output)   # declared return type of the resolved crate-local callee
                if isinstance(out, dict) and "param" in out and len(out) <= 2:
                    # a generic return type: take the type argument of this call
                    names = [g_["name"] for g_ in cands[0].generics if g_.get("kind", "type") != "lifetime"]
                    gargs = [a for a in t[2] if a != "'_"]
                    if out["param"] in names and names.index(out["param"]) < len(gargs):
                        ga = gargs[names.index(out["param"])]
                        if ga in self.prog.adts:
                            return {"adt": ga, "args": []}
                    return None
                return out
            return None
        return None

    def _scalar_arg(self, a):
        ty = self.type_of(a)
        return ty is None or isinstance(ty, str)

    # ---- labels --------------------------------------------------------------------------------------------
    def label(self, t):
        key = id(t)
        if key in self._memo:
            return self._memo[key]
        r = self._label(t)
        self._memo[key] = r
        self._keep.append(t)   # the memo is keyed by identity: keep the tree alive so that its id is not reused
        return r

    def _join(self, a, b, where, t):
        if a == "N":
            return b
        if b == "N":
            return a
        if a == b:
            return a
        if {a, b} == {"X", "Y"}:
            self.conflicts.append((where, show(t, maxd=5)))
        if {a, b} in ({"XX", "Y"}, {"YY", "X"}):
            # y * height + x: a row count times a row count is not a number of cells before row y (that is y * width)
            self.conflicts.append((where, "a product of two %s-quantities is combined with a plain %s-quantity: %s" % ((("x", "y") if "XX" in (a, b) else ("y", "x")) + (show(t, maxd=5),))))
        return "M"

    def _label(self, t):
        k = t[0]
        if k == "const":
            if t[1] == "WIDTH":
                return "X"       # const generic parameters of Framebuffer-like types
            if t[1] == "HEIGHT":
                return "Y"
            return "N"
        if k in ("cast", "ref", "deref"):
            return self.label(t[1])
        if k == "field":
            bt = self.type_of(t[1])
            if isinstance(bt, dict) and bt.get("adt") in (POINT, SIZE):
                self.label(t[1])   # conflicts inside the base (constructor arguments)
                return "X" if t[2] == 0 else ("Y" if t[2] == 1 else "M")
            if t[1][0] == "bin" and t[2] == 0:   # checked arithmetic tuple
                return self.label(t[1])
            if t[1][0] == "variant" and t[2] == 0 and t[1][2] in ("Some", "Ok"):
                return self.label(t[1][1])       # the item of an Option / Result
            if isinstance(bt, dict) and "adt" in bt:
                # a scalar field of another struct: its declared name says which axis it belongs to, if any
                a = self.prog.adts.get(bt["adt"])
                if a and a["kind"] == "struct" and t[2] < len(a["variants"][0]["fields"]):
                    fld = a["variants"][0]["fields"][t[2]]
                    if isinstance(fld["ty"], str) and fld["ty"] in ("u8", "u16", "u32", "u64", "usize", "i8", "i16", "i32", "i64", "isize"):
                        nm = fld["name"]
                        if nm in ("x", "width", "left", "right", "columns"):
                            return "X"
                        if nm in ("y", "height", "top", "bottom", "rows"):
                            return "Y"
                        return "N"
            return "M"
        if k == "phi":
            labs = {self.label(a) for a in t[1]}
            labs.discard("N")
            return labs.pop() if len(labs) == 1 else ("N" if not labs else "M")
        if k == "bin":
            a, b = self.label(t[2]), self.label(t[3])
            if t[1] in JOINING:
                return self._join(a, b, t[1], t)
            if t[1] in ("Lt", "Le", "Gt", "Ge", "Eq", "Ne"):
                return "N"
            if t[1] in ("Mul", "Div", "Rem", "MulWithOverflow", "Shl", "Shr"):
                if b == "N":
                    return a
                if a == "N" and t[1] in ("Mul", "MulWithOverflow"):
                    return b
                if t[1] in ("Mul", "MulWithOverflow") and a in ("X", "Y") and b in ("X", "Y"):
                    return a + b if a == b else "A"   # XX / YY: a square; A: cells (rows x columns)
                return "M"
            return "M"
        if k == "un":
            return self.label(t[2])
        if k == "call":
            name = t[1].split("::")[-1]
            args = [self.label(a) for a in t[3]]
            if t[1].endswith(("Point::new", "Size::new")) and len(t[3]) == 2:
                if args[0] == "Y" or args[1] == "X":
                    self.conflicts.append((name.join(("", "")) or "new", "%s gets a %s-quantity as its first and a %s-quantity as its second component: %s" % (t[1].split("::")[-2] + "::new", args[0], args[1], show(t, maxd=5))))
                return "M"
            if t[1].endswith(("Size::new_equal", "Point::new_equal")) and args and args[0] in ("X", "Y"):
                return "M"
            if name in JOIN_CALLS and len(args) >= 2 and ("core::num" in t[1] or "core::cmp" in t[1] or "Ord" in t[1]):
                r = args[0]
                for b in args[1:]:
                    if name == "min" and {r, b} == {"X", "Y"}:
                        r = "N"   # the smaller of an x-limit and a y-limit fits both axes (a dot that fits the box)
                    else:
                        r = self._join(r, b, name, t)
                return r
            if name in KEEP_CALLS and args:
                return args[0]
            if name in ITER_CALLS and args and ("core::iter" in t[1] or "IntoIterator" in t[1] or "core::ops::range" in t[1] or "core::slice" in t[1]):
                return args[0]                   # the items of an iterator carry the iterator's axis
            cands = [g for g in self.prog.by_path.get(t[1], []) if g.kind == "fn" and g.body]
            if len(cands) == 1 and args and not cands[0].impl:
                # a free crate-local helper fed with quantities of one axis only (and neutral ones) computes for that axis
                out = cands[0].output
                scalar_or_iter = isinstance(out, str) or (isinstance(out, dict) and not ("adt" in out and out["adt"] in (POINT, SIZE)) and "tuple" not in out)
                def bare(a):
                    while a[0] in ("ref", "deref", "cast"):
                        a = a[1]
                    return a[0] in ("param", "upvar") and isinstance(self.type_of(a), str)   # a scalar passed through: no axis of its own
                labs = {l for l, a in zip(args, t[3]) if l != "N" and not (l == "M" and bare(a))}
                if scalar_or_iter and len(labs) == 1 and labs <= {"X", "Y"} and all(self._scalar_arg(a) for a in t[3]):
                    return labs.pop()
            return "M"
        if k == "agg" and isinstance(t[1], str) and t[1].rsplit("::", 1)[0] in (POINT, SIZE) and len(t[2]) == 2:
            a, b = self.label(t[2][0]), self.label(t[2][1])
            if a == "Y" or b == "X":
                self.conflicts.append(("agg", "%s built from a %s-quantity (x/width place) and a %s-quantity (y/height place): %s" % (t[1].rsplit("::", 1)[0].split("::")[-1], a, b, show(t, maxd=5))))
            return "M"
        if k in ("payload", "update", "mut"):
            return self.label(t[1]) if k != "payload" else "M"
        return "M"


def axis_conflicts(prog, f):
    """[(where, description)] of definite x/y mixes in f (every binary operation, comparison, min/max call and
    Point/Size construction of the body, operands traced to their origins)."""
    org = Origins(f)
    ax = Axis(prog, f)
    blocks = f.body["blocks"]
    for bi in sorted(org.cfg.live_blocks()):
        blk = blocks[bi]
        for si, s in enumerate(blk["s"]):
            if s["k"] != "assign":
                continue
            rv = s["rv"]
            if rv["k"] in ("bin", "agg"):
                try:
                    ax.label(org._rvalue(rv, bi, si))
                except RecursionError:
                    pass
        t = blk["t"]
        if t and t["k"] == "call":
            try:
                ax.label(org._call(t, bi))
            except RecursionError:
                pass
    seen = []
    for c in ax.conflicts:
        if c not in seen:
            seen.append(c)
    return seen


# functions that rotate / swap the axes on purpose (confirmed by reading), one line each
EXEMPT = {
    "rotate_90": "PointExt::rotate_90: (x, y) -> (-y, x)",
    "swap_xy": "Point::swap_xy / Size::swap_xy",
    "perpendicular": "Line::perpendicular: direction rotated by 90 degrees",
    "major_length": "bresenham::major_length: max(|dx|, |dy|), the number of steps of a line",
    "intersection": "IntersectionParams::intersection: determinant form pairs x with x and y with y of two lines on purpose",
}
_CACHE = {}


def library_conflicts(prog):
    """{file: [(fn, description)]} over every non-test, non-mock library function (computed once per program)"""
    key = id(prog)
    if key not in _CACHE:
        out = {}
        n = 0
        for f in sorted(prog.fns.values(), key=lambda f: f.id):
            if not f.body or f.kind not in ("fn", "assoc_fn", "closure") or "::mock_display::" in f.id:
                continue
            if f.root_fn().name in EXEMPT:
                continue
            n += 1
            try:
                cs = axis_conflicts(prog, f)
            except Exception as e:   # fail closed
                cs = [("engine", "analysis crashed: %r" % (e,))]
            if cs:
                out.setdefault((f.root_fn().span or "?").split(":")[0], []).append((f, [d for _, d in cs]))
        _CACHE[key] = (out, n)
    return _CACHE[key]


def run_for(prog, rep, rule, prefixes, what):
    """one obligation: no definite x/y mix in the functions of the files under `prefixes`"""
    out, n = library_conflicts(prog)
    bad = []
    n_files = 0
    for file, items in sorted(out.items()):
        if any(file.startswith(p) for p in prefixes):
            for f, ds in items:
                bad.append("%s: %s" % (f.key().split("::")[-1] if not f.key().startswith("<") else f.key()[-60:], ds[0]))
    cnt = sum(1 for f in prog.fns.values() if f.body and f.kind in ("fn", "assoc_fn", "closure") and any(((f.root_fn().span or "?").split(":")[0]).startswith(p) for p in prefixes))
    rep.floor(rule, "functions under the axis analysis", cnt, 10)
    first = None
    for file, items in sorted(out.items()):
        if any(file.startswith(p) for p in prefixes):
            first = items[0][0]
            break
    rep.check(not bad, rule, "axis-consistency", "%s: an x-quantity (x / width) meets a y-quantity (y / height) in a sum, difference, min/max or a Point/Size component of the other axis: %s" % (what, "; ".join(bad[:3])),
              at=first.span if first else "", fn=first.path if first else "", detail={"functions": cnt, "exempt": sorted(EXEMPT)})
