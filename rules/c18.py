"""C18 — curved primitives match their mathematical shapes and each other (structural part)."""
from mirq import ty_str
from mirq.origin import Origins, show, walk, decisions, lit_truth, dominating_guards
from mirq.pat import match, find, strip_refs
from rules.c14 import field_index
from rules.c10 import fold
from rules import c05
from mirq.paths import Paths, Unsupported, variant_of
from mirq.canon import Canon

PRIM = "embedded_graphics::primitives::"
P = lambda i, n: ("param", i, n)


def squares_only(t, leaf_pred):
    """every occurrence of a leaf satisfying leaf_pred is below a squaring node (pow(_, 2) or v*v)"""
    def rec(n, squared):
        if leaf_pred(n):
            return squared
        if not isinstance(n, tuple) or not n:
            return True
        if n[0] == "call" and n[1].endswith("::pow") and len(n[3]) == 2 and n[3][1] == ("const", 2):
            return rec(n[3][0], True)
        if n[0] == "bin" and n[1] in ("Mul", "MulWithOverflow") and n[2] == n[3]:
            return rec(n[2], True)
        if n[0] == "call" and n[1].endswith("::length_squared"):
            return all(rec(a, True) for a in n[3])  # checked separately: length_squared = x*x + y*y
        ok = True
        for x in n[1:]:
            if isinstance(x, tuple) and x and isinstance(x[0], str):
                ok = ok and rec(x, squared)
            elif isinstance(x, tuple):
                for y in x:
                    if isinstance(y, tuple):
                        ok = ok and rec(y, squared)
        return ok
    return rec(t, False)


def run(ctx, rep):
    for config in ("default", "fixed_point"):
        prog = ctx.program(config)
        if config not in rep.configs:
            rep.configs.append(config)
        full_sweep(prog, rep, config)
    prog = ctx.program("default")
    symmetry(prog, rep)
    circle_is_ellipse(prog, rep)
    c05.rounded(prog, rep)   # corner quadrant tables (R05.2): zero radii / half-side radii go through the same quadrants
    c05.circle(prog, rep)
    c05.ellipse(prog, rep)   # Ellipse::contains and the row search test the same EllipseContains on 2p - center_2x (R05.1)
    c05.sector(prog, rep)    # Sector::contains / points measure the wedge from the same doubled centre as the circle (R05.1)
    plane_sector_tables(prog, rep)
    confine_sides(prog, rep)
    try:
        corner_search_whole_row(prog, rep)
    except Exception as e:
        import traceback; traceback.print_exc()
        rep.fail("R18.9", "engine", "corner search analysis crashed: %r" % (e,), status="undecided")
    from rules import axis
    axis.run_for(ctx.program("default"), rep, 'R18.6', ['src/primitives/rounded_rectangle', 'src/primitives/circle', 'src/primitives/ellipse', 'src/primitives/arc', 'src/primitives/sector', 'src/primitives/common'], 'corner radii, quadrants and centres are computed per axis')

def symmetry(prog, rep):
    """R18.1 mirror symmetry of the hit tests: the centre offset enters only through even functions."""
    ls = [f for f in prog.fns.values() if f.name == "length_squared" and f.body and f.kind == "assoc_fn" and "PointExt" in (prog.impls.get(f.impl, {}).get("trait") or "")]
    ok = len(ls) == 1
    if ok:
        ro = fold(strip_refs(Origins(ls[0]).return_origin()))
        x, y = ("field", P(1, "self"), 0), ("field", P(1, "self"), 1)
        sq = lambda v: {("bin", "Mul", v, v), ("call", "*::pow", "_", (v, ("const", 2)))}
        ok = any(match(ro, ("bin", "Add", a, b)) is not None for a in sq(x) for b in sq(y))
        if not ok:
            ok = match(ro, ("call", "*::dot_product", "_", (P(1, "self"), P(1, "self")))) is not None
            if ok:
                dp = [f for f in prog.fns.values() if f.name == "dot_product" and f.body and f.kind == "assoc_fn" and "PointExt" in (prog.impls.get(f.impl, {}).get("trait") or "")]
                r2 = fold(strip_refs(Origins(dp[0]).return_origin())) if len(dp) == 1 else None
                a, b = P(1, "self"), P(2, "other")
                ok = r2 is not None and match(r2, ("bin", "Add", ("bin", "Mul", ("field", a, 0), ("field", b, 0)), ("bin", "Mul", ("field", a, 1), ("field", b, 1)))) is not None
    rep.check(ok, "R18.1", "length_squared", "length_squared must be x*x + y*y (even in each component)", at=ls[0].span if ls else "", fn=ls[0].path if ls else "")
    EC = PRIM + "ellipse::EllipseContains"
    co = prog.method1(EC, "contains", None)
    good = True
    n = 0
    for lits, ret, path in decisions(co):
        trees = [ret] + [d for d, _ in lits]
        for t in trees:
            t = fold(strip_refs(t))
            n += 1
            good = good and squares_only(t, lambda nn: nn[0] == "field" and nn[1] == P(2, "point"))
    rep.check(good and n >= 2, "R18.1", "EllipseContains::contains", "the ellipse test may use the centre offset only squared (mirror symmetry about both centre lines)", at=co.span, fn=co.path)
    CI = PRIM + "circle::Circle"
    cc = prog.method1(CI, "contains", PRIM + "ContainsPoint")
    ro = c05.pred_tree(prog, cc)
    if ro is None:
        ro = Canon(prog).tree(strip_refs(Origins(cc).return_origin()))
    pr = c05.dist_predicate(ro)
    rep.check(pr is not None, "R18.1", "Circle::contains", "the circle test must compare the squared length of the doubled centre offset (even function) with the threshold; found %s" % show(ro, maxd=5), at=cc.span, fn=cc.path)
    # EllipseContains::new is invariant under swapping the axes together with a<->b
    nw = prog.method1(EC, "new", None)
    a_i, b_i = field_index(prog, EC, "a"), field_index(prog, EC, "b")
    for lits, ret, path in decisions(nw):
        r = fold(strip_refs(ret))
        if r[0] != "agg":
            continue
        w, h = ("field", P(1, "size"), 0), ("field", P(1, "size"), 1)
        okk = match(r[2][a_i], ("call", "*::pow", "_", (w, ("const", 2)))) is not None and match(r[2][b_i], ("call", "*::pow", "_", (h, ("const", 2)))) is not None
        rep.check(okk, "R18.4", "EllipseContains::new:axes", "a must be width^2 and b height^2 (the test b*x^2 + a*y^2 < a*b pairs each axis with the other's square); found a=%s b=%s" % (show(r[2][a_i]), show(r[2][b_i])), at=nw.span, fn=nw.path)
        break


def circle_is_ellipse(prog, rep):
    """R18.2 under width == height the ellipse test is the circle test.  Decided semantically on path summaries: values
    as polynomial normal forms, conditions as the polynomial of each comparison (rules/c16_tables.py), so operand order,
    `>` vs `<`, `x.pow(2)` vs `x * x`, swapped branches and destructuring do not matter."""
    from rules.c16_tables import nf, cond_poly, canon
    from mirq.paths import show_fact
    EC = PRIM + "ellipse::EllipseContains"
    C_ = lambda v: ("const", v)
    mul = lambda x, y: ("bin", "Mul", x, y)
    add = lambda x, y: ("bin", "Add", x, y)
    sub = lambda x, y: ("bin", "Sub", x, y)
    P_ = Paths(prog, inline=lambda g: prog.is_new(g) or (g.name in ("pow",) and False))
    Pall = Paths(prog, inline=lambda g: True, depth=6)
    nw = prog.method1(EC, "new", None)
    th_i = field_index(prog, EC, "threshold")
    a_i, b_i = field_index(prog, EC, "a"), field_index(prog, EC, "b")
    w, h = ("field", P(1, "size"), 0), ("field", P(1, "size"), 1)

    def eq_case(facts, x, y):
        """True / False when the path has established x == y / x != y (and nothing else), else None"""
        want = cond_poly(("eq", x, y))[1]
        tv = None
        for fct in facts:
            cp = cond_poly(fct)
            if cp is None or cp[1] != want or cp[0] not in ("eq", "ne"):
                return None
            tv = cp[0] == "eq"
        return tv
    table = {}
    try:
        for sm in P_.of(nw):
            r = sm.ret
            if r[0] == "agg" and len(r[2]) > max(th_i, a_i, b_i):
                table[eq_case(sm.facts, w, h)] = r[2]
    except Unsupported as e:
        table = {}
    t_eq, t_ne = table.get(True), table.get(False)
    ok = t_eq is not None and match(strip_refs(t_eq[th_i]), ("call", "*circle::diameter_to_threshold", "_", ("?d",))) is not None and nf(match(strip_refs(t_eq[th_i]), ("call", "*circle::diameter_to_threshold", "_", ("?d",)))["?d"]) in (nf(w), nf(h))
    rep.check(ok, "R18.2", "EllipseContains::new:circle-case", "for width == height the threshold must be circle::diameter_to_threshold(width) (the circle's own threshold incl. its small-diameter correction); found %s" % (show(t_eq[th_i]) if t_eq else sorted(map(str, table))), at=nw.span, fn=nw.path)
    ok = t_ne is not None and nf(t_ne[th_i]) is not None and nf(t_ne[th_i]) == nf(mul(mul(w, w), mul(h, h)))
    rep.check(ok, "R18.2", "EllipseContains::new:general-case", "otherwise the threshold is a*b = width^2 * height^2; found %s" % (show(t_ne[th_i]) if t_ne else None), at=nw.span, fn=nw.path)
    ok = all(t is not None and nf(t[a_i]) == nf(mul(w, w)) and nf(t[b_i]) == nf(mul(h, h)) for t in (t_eq, t_ne))
    rep.check(ok, "R18.2", "EllipseContains::new:axes", "a = width^2 and b = height^2 on both paths", at=nw.span, fn=nw.path)
    co = prog.method1(EC, "contains", None)
    a, b, th = ("field", P(1, "self"), a_i), ("field", P(1, "self"), b_i), ("field", P(1, "self"), th_i)
    px, py = ("field", P(2, "point"), 0), ("field", P(2, "point"), 1)
    x2, y2 = mul(px, px), mul(py, py)
    REL = {"Le": lambda l, r: ("le", l, r), "Lt": lambda l, r: ("lt", l, r), "Ge": lambda l, r: ("le", r, l), "Gt": lambda l, r: ("lt", r, l)}
    tb = {}
    try:
        for sm in P_.of(co):
            r = strip_refs(sm.ret)
            if r[0] == "bin" and r[1] in REL:
                tb[eq_case(sm.facts, a, b)] = cond_poly(REL[r[1]](r[2], r[3]))
            else:
                tb[eq_case(sm.facts, a, b)] = ("?", show(r, maxd=4))
    except Unsupported as e:
        tb = {}
    c_eq, c_ne = tb.get(True), tb.get(False)
    ok = c_eq is not None and c_eq == cond_poly(("lt", add(x2, y2), th))
    rep.check(ok, "R18.2", "EllipseContains::contains:circle-case", "for equal axes the test must be x^2 + y^2 < threshold — the circle's predicate; found %s" % ((c_eq if c_eq else sorted(map(str, tb))),), at=co.span, fn=co.path)
    ok = c_ne is not None and c_ne == cond_poly(("lt", add(mul(b, x2), mul(a, y2)), th))
    rep.check(ok, "R18.2", "EllipseContains::contains:general-case", "otherwise b*x^2 + a*y^2 < threshold; found %s" % (c_ne,), at=co.span, fn=co.path)
    # centre formula: two copies, compared with everything inlined
    cc = prog.method1(PRIM + "circle::Circle", "center_2x", None)
    ces = [f for f in prog.fns.values() if f.body and f.name == "center_2x" and f.impl and prog.impls[f.impl]["self_ty"].get("adt") == PRIM + "ellipse::Ellipse"]
    if not ces:
        # no Ellipse::center_2x method (inlined at its call sites): the free ellipse::center_2x(top_left, size) carries
        # the formula; R05.1 compares every use of the doubled centre with it
        free = prog.by_path.get(PRIM + "ellipse::center_2x", [])
        okf = False
        if len(free) == 1:
            try:
                ss = Pall.of(free[0])
                tlp, szp = P(1, "top_left"), P(2, "size")
                okf = all(sm.ret[0] == "agg" and len(sm.ret[2]) == 2 and all(nf(sm.ret[2][i]) is not None and nf(sm.ret[2][i]) == nf(add(mul(("field", tlp, i), C_(2)), ("call", "core::num::<impl u32>::saturating_sub", (), (("field", szp, i), C_(1))))) for i in (0, 1)) for sm in ss)
            except Unsupported:
                okf = False
        rep.check(okf, "R18.2", "center_2x", "the ellipse's doubled centre must be top_left*2 + (size - 1) per axis (saturating)", at=cc.span, fn=cc.path)
        ce = None
    else:
        ce = ces[0]
    me = P(1, "self")
    tl = lambda i: ("field", ("field", me, 0), i)
    ssub = lambda x: ("call", "core::num::<impl u32>::saturating_sub", (), (x, C_(1)))
    bad = []
    for f_, ext in ([(ce, lambda i: ("field", ("field", me, 1), i))] if ce is not None else []) + [(cc, lambda i: ("field", me, 1))]:
        try:
            ss = Pall.of(f_)
        except Unsupported as e:
            bad.append("cannot summarise %s: %s" % (f_.path, e))
            continue
        for sm in ss:
            r = sm.ret
            comps = r[2] if r[0] == "agg" and len(r[2]) == 2 else None
            for i in (0, 1):
                if comps is None or nf(comps[i]) is None or nf(comps[i]) != nf(add(mul(tl(i), C_(2)), ssub(ext(i)))):
                    bad.append("%s gives %s" % (f_.path.split("::")[-2], show(canon(r), maxd=5)))
                    break
    rep.check(not bad, "R18.2", "center_2x" if ce is not None else "center_2x:circle", "both doubled centres must be top_left*2 + (size - 1) per axis (saturating): %s" % "; ".join(bad[:2]), at=(ce or cc).span, fn=(ce or cc).path)
    rep.sample({"rule": "R18.2", "ellipse_test_circle_case": str(c_eq), "ellipse_test_general_case": str(c_ne)})


def full_sweep(prog, rep, config):
    """R18.3 a sweep of 360 degrees or more selects the entire plane."""
    PS = PRIM + "common::plane_sector::PlaneSector"
    nw = prog.method1(PS, "new", None)
    org = Origins(nw)
    op_i = field_index(prog, PS, "operation")
    found = False
    good = True
    for bi in sorted(org.cfg.live_blocks()):
        for si, s in enumerate(nw.body["blocks"][bi]["s"]):
            if s["k"] == "assign" and s["rv"]["k"] == "agg" and s["rv"].get("adt") == PS:
                ops = [strip_refs(org.operand(o, bi, si)) for o in s["rv"]["ops"]]
                if ops[op_i][0] == "agg" and ops[op_i][1].endswith("Operation::EntirePlane"):
                    found = True
                    gs = [(strip_refs(d), lit_truth(l)) for d, l in dominating_guards(nw, org, bi)]
                    g_ok = False
                    for d, tv in gs:
                        if d[0] == "call" and d[1].split("::")[-1] in ("ge", "le", "gt", "lt") and tv is not None:
                            import json as _json
                            is360 = False
                            for n in walk(d):
                                if n[0] == "const" and isinstance(n[1], str) and n[1].startswith("val:"):
                                    av = _angle_value(_json.loads(n[1][4:]))
                                    is360 = is360 or (av is not None and abs(av - 6.283185307179586) < 1e-3)
                                if n[0] == "const" and isinstance(n[1], str) and "ANGLE_360DEG" in n[1]:
                                    is360 = True
                            if is360:
                                nm = d[1].split("::")[-1]
                                first_is_sweep = "abs" in show(d[3][0], maxd=4)
                                g_ok = (nm == "ge" and first_is_sweep and tv) or (nm == "le" and not first_is_sweep and tv) or (nm == "lt" and first_is_sweep and tv is False) or (nm == "gt" and not first_is_sweep and tv is False)
                                g_ok = g_ok and any(n[0] == "call" and n[1].endswith("Angle::abs") and n[3] == (P(2, "angle_sweep"),) for n in walk(d))
                    good = good and g_ok
    rep.check(found and good, "R18.3", "PlaneSector::new:%s" % config, "PlaneSector::new must select Operation::EntirePlane exactly under |angle_sweep| >= ANGLE_360DEG", at=nw.span, fn=nw.path)
    ex = prog.method1(PRIM + "common::plane_sector::Operation", "execute", None)
    ops = {v["discr"]: v["name"] for v in prog.adts[PRIM + "common::plane_sector::Operation"]["variants"]}
    t = {}
    for lits, ret, path in decisions(ex):
        for d, lit in lits:
            if d[0] == "discr" and len(lit) == 1:
                t.setdefault(ops.get(lit[0]), set()).add(repr(ret))
    rep.check(t.get("EntirePlane") == {repr(("const", True))}, "R18.3", "Operation::execute:%s" % config, "Operation::EntirePlane must accept every point; found %s" % t.get("EntirePlane"), at=ex.span, fn=ex.path)
    # the constant is 360 degrees
    consts = [f for f in prog.fns.values() if f.name == "ANGLE_360DEG" and f.kind in ("const", "assoc_const")]
    ok = len(consts) == 1
    val = None
    if ok:
        v = consts[0].d.get("v")
        val = _angle_value(v)
        ok = val is not None and abs(val - 6.283185307179586) < 1e-3
    rep.check(ok, "R18.3", "ANGLE_360DEG:%s" % config, "ANGLE_360DEG must evaluate to 2*pi radians in the %s build; got %r" % (config, val))


def _angle_value(v):
    """Angle(Real(f32 | fixed I16F16)) -> radians"""
    import struct
    cur = v
    for _ in range(6):
        if isinstance(cur, dict) and "fields" in cur:
            vals = list(cur["fields"].values())
            if not vals:
                return None
            cur = vals[0]
        else:
            break
    if isinstance(cur, dict) and "fbits" in cur:
        return struct.unpack("<f", struct.pack("<I", cur["fbits"] & 0xFFFFFFFF))[0]
    if isinstance(cur, int):
        return cur / 65536.0
    return None


# ---- R18.5 plane sector: complete decision tables (path summaries) --------------------------------------------------
def _eval_summaries(summs, atoms, assign, subject=None, op=None):
    """Result of a boolean / enum valued function given by path summaries under an assignment of its boolean atoms
    (trees -> bool) and of the variant of `subject`.  Returns the set of results of the summaries whose facts are all
    consistent with the assignment; 'unknown' if a fact is about something else."""
    out = set()
    for sm in summs:
        ok = True
        for f in sm.facts:
            if f[0] in ("true", "false") and f[1] in atoms:
                ok = ok and (assign[atoms.index(f[1])] == (f[0] == "true"))
            elif f[0] == "variant" and subject is not None and f[1] == subject:
                ok = ok and op in f[2]
            else:
                return {"unknown: %s" % (f,)}
        if not ok:
            continue
        r = sm.ret
        if r in atoms:
            out.add(assign[atoms.index(r)])
        elif r[0] == "const" and isinstance(r[1], bool):
            out.add(r[1])
        else:
            vo = variant_of(r)
            if vo is not None and not (r[2] and variant_of(r[2][0]) is None and vo[1] != "Some"):
                out.add(vo[1] if not r[2] else "%s(%s)" % (vo[1], variant_of(r[2][0])[1] if variant_of(r[2][0]) else "?"))
            else:
                out.add("unknown result %s" % show(r, maxd=3))
    return out


OPS = {"Intersection": lambda a, b: a and b, "Union": lambda a, b: a or b, "EntirePlane": lambda a, b: True}


def plane_sector_tables(prog, rep):
    import itertools
    PS = PRIM + "common::plane_sector::PlaneSector"
    OP = PRIM + "common::plane_sector::Operation"
    ex = prog.method1(OP, "execute", None)
    names = [v["name"] for v in prog.adts[OP]["variants"]]
    rep.check(sorted(names) == sorted(OPS), "R18.5", "Operation:variants", "Operation must have the variants %s; found %s" % (sorted(OPS), names))
    P0 = Paths(prog)
    Pin = Paths(prog, inline=lambda g: prog.is_new(g) or g.id == ex.id)
    # execute(self, first, second)
    try:
        summs = P0.of(ex)
        atoms = [P(2, "first"), P(3, "second")]
        bad = []
        for op in OPS:
            for a, b in itertools.product((False, True), repeat=2):
                got = _eval_summaries(summs, atoms, (a, b), P(1, "self"), op)
                if got != {OPS[op](a, b)}:
                    bad.append("%s.execute(%s, %s) = %s" % (op, a, b, sorted(map(str, got))))
        rep.check(not bad, "R18.5", "Operation::execute", "execute must be first && second (Intersection), first || second (Union), true (EntirePlane): " + "; ".join(bad[:3]), at=ex.span, fn=ex.path)
    except Unsupported as e:
        rep.fail("R18.5", "Operation::execute", "cannot summarise: %s" % e, status="undecided", at=ex.span, fn=ex.path)
    # contains(self, point) = operation.execute(left.check_side(point, Left), right.check_side(point, Right))
    ct = prog.method1(PS, "contains", None)
    fi = lambda n: ("field", P(1, "self"), field_index(prog, PS, n))
    try:
        summs = Pin.of(ct)
        sides = []
        for sm in summs:
            for t in [f[1] for f in sm.facts if f[0] in ("true", "false")] + [sm.ret]:
                if t[0] == "call" and t[1].endswith("::check_side") and t not in sides:
                    sides.append(t)

        def side_of(t):
            vo = variant_of(t[3][2]) if len(t[3]) == 3 else None
            return (t[3][0], vo[1] if vo else None, t[3][1])
        want_sides = {(fi("half_plane_left"), "Left", P(2, "point")), (fi("half_plane_right"), "Right", P(2, "point"))}
        ok = {side_of(t) for t in sides} == want_sides and len(sides) == 2
        rep.check(ok, "R18.5", "PlaneSector::contains:sides", "contains must test the point against the left half plane on its Left side and the right half plane on its Right side; found %s" % [show(t, maxd=3) for t in sides], at=ct.span, fn=ct.path)
        if ok:
            bad = []
            for op in OPS:
                for a, b in itertools.product((False, True), repeat=2):
                    got = _eval_summaries(summs, sides, (a, b), fi("operation"), op)
                    if got != {OPS[op](a, b)}:
                        bad.append("%s with sides (%s, %s) -> %s" % (op, a, b, sorted(map(str, got))))
            rep.check(not bad, "R18.5", "PlaneSector::contains:table", "contains must combine the two half-plane tests with self.operation for all three operations (a shortcut valid for the intersection drops points of sweeps >= 180 degrees): " + "; ".join(bad[:3]), at=ct.span, fn=ct.path)
    except Unsupported as e:
        rep.fail("R18.5", "PlaneSector::contains:table", "cannot summarise: %s" % e, status="undecided", at=ct.span, fn=ct.path)
    # point_type: None outside the outer sector, Fill inside the inner one, Stroke between
    pt = prog.method1(PS, "point_type", None)
    try:
        summs = P0.of(pt)
        execs = []
        for sm in summs:
            for t in [f[1] for f in sm.facts if f[0] in ("true", "false")]:
                if t[0] == "call" and t[1].endswith("Operation::execute") and t not in execs:
                    execs.append(t)
        ok = len(execs) == 2 and all(t[3][0] == fi("operation") for t in execs)
        dr = ("call", "*::distance", "_", (fi("half_plane_right"), P(2, "point")))
        dl = ("call", "*::distance", "_", (fi("half_plane_left"), P(2, "point")))
        it, ot = P(3, "inside_threshold"), P(4, "outside_threshold")
        cn = Canon(prog)
        forms = {}
        for t in execs:
            a, b = cn.tree(t[3][1]), cn.tree(t[3][2])
            if match(a, ("bin", "Le", ("un", "Neg", ot), dr)) is not None and match(b, ("bin", "Le", dl, ot)) is not None:
                forms["outer"] = t
            if match(a, ("bin", "Le", it, dr)) is not None and match(b, ("bin", "Le", dl, ("un", "Neg", it))) is not None:
                forms["inner"] = t
        ok = ok and set(forms) == {"outer", "inner"}
        rep.check(ok, "R18.5", "PlaneSector::point_type:tests", "point_type must evaluate self.operation on (right >= -outside, left <= outside) and on (right >= inside, left <= -inside); found %s" % [show(t, maxd=4) for t in execs], at=pt.span, fn=pt.path)
        if ok:
            atoms = [forms["outer"], forms["inner"]]
            want = {(False, False): {"None"}, (False, True): {"None"}, (True, False): {"Some(Stroke)"}, (True, True): {"Some(Fill)"}}
            bad = []
            for asg, w in want.items():
                got = _eval_summaries(summs, atoms, asg)
                if {str(g) for g in got} != w:
                    bad.append("outer=%s inner=%s -> %s" % (asg[0], asg[1], sorted(map(str, got))))
            rep.check(not bad, "R18.5", "PlaneSector::point_type:table", "point_type must be None outside the outer sector, Fill inside the inner sector and Stroke between: " + "; ".join(bad[:3]), at=pt.span, fn=pt.path)
    except Unsupported as e:
        rep.fail("R18.5", "PlaneSector::point_type:table", "cannot summarise: %s" % e, status="undecided", at=pt.span, fn=pt.path)


CR = "embedded_graphics::primitives::rounded_rectangle::corner_radii::CornerRadii"


def confine_sides(prog, rep):
    """R18.7 CornerRadii::confine measures the overlap along the four sides of the box: each overlap term is
    (radius of one corner + radius of the other corner OF THE SAME SIDE, both along that side) - (box extent along that
    side); all four sides occur; a scaling path scales every corner, in place, by (extent of one side) / (radii sum of
    that same side)."""
    f = prog.method1(CR, "confine", None)
    names = [x["name"] for x in prog.adts[CR]["variants"][0]["fields"]]
    me, bb = ("param", 1, "self"), ("param", 2, "bounding_box")
    # side -> (the two corners, component along the side)
    sides = {"top": ({"top_left", "top_right"}, 0), "right": ({"top_right", "bottom_right"}, 1),
             "bottom": ({"bottom_left", "bottom_right"}, 0), "left": ({"top_left", "bottom_left"}, 1)}

    def side_of(sum_):
        m = match(sum_, ("bin", "Add", ("field", ("field", me, "?i"), "?k"), ("field", ("field", me, "?j"), "?l")))
        if m is None or not all(isinstance(m[x], int) for x in ("?i", "?j", "?k", "?l")):
            return None, "not the sum of two corner radii"
        cs = {names[m["?i"]], names[m["?j"]]}
        if m["?k"] != m["?l"]:
            return None, "adds a width to a height (%s)" % sorted(cs)
        for nm, (pair, k) in sides.items():
            if cs == pair:
                if k != m["?k"]:
                    return None, "the %s side is measured with the %s of its corners" % (nm, ("widths", "heights")[m["?k"]])
                return nm, None
        return None, "%s and %s do not share a side" % tuple(sorted(cs)) if len(cs) == 2 else "one corner added to itself"

    bad, seen, scaled = [], set(), 0
    try:
        try:
            summs = Paths(prog, inline=lambda g: prog.is_new(g)).of(f)
        except Unsupported:
            summs = Paths(prog, inline=lambda g: prog.is_new(g), loops="unroll", limit=20000, path_limit=4000).of(f)   # a loop over a table of the four sides
    except Unsupported as e:
        rep.check(False, "R18.7", "confine:sides", "cannot summarise CornerRadii::confine: %s" % e, status="undecided", at=f.span, fn=f.path)
        return
    from mirq.paths import strip_casts
    for sm in summs:
        trees = [x for fct in sm.facts for x in fct[1:] if isinstance(x, tuple)] + ([sm.ret] if sm.ret is not None else [])
        for t in trees:
            for n in walk(t):
                if n[0] == "call" and n[1].endswith("::saturating_sub") and len(n[3]) == 2 and any(x == me for x in walk(n[3][0])):
                    sd, why = side_of(strip_casts(n[3][0]))
                    lim = strip_casts(n[3][1])
                    if sd is None:
                        bad.append("overlap term %s: %s" % (show(n, maxd=4), why))
                    elif lim != ("field", bb, sides[sd][1]):
                        bad.append("the %s side is compared with %s" % (sd, show(lim, maxd=3)))
                    else:
                        seen.add(sd)
        r = sm.ret
        if r is not None and r[0] == "agg" and str(r[1]).startswith(CR) and len(r[2]) == 4:
            scaled += 1
            pairs = set()
            for i, c in enumerate(r[2]):
                m = match(c, ("call", "*Div<u32>>::div", "_", (("call", "*Mul<u32>>::mul", "_", (("field", me, i), "?size")), "?sum")))
                if m is None:
                    bad.append("corner %s of a confined result is not self.%s * size / corner_size: %s" % (names[i], names[i], show(c, maxd=4)))
                    continue
                pairs.add((strip_casts(m["?size"]), strip_casts(m["?sum"])))
            if len(pairs) > 1:
                bad.append("the corners of one result are scaled by different factors")
            for size, sum_ in pairs:
                if size[0] == "const" and sum_[0] == "const":
                    continue   # the infeasible `0 < 0` leftover path of the initial values
                sd, why = side_of(sum_)
                if sd is None:
                    bad.append("scaling divisor %s: %s" % (show(sum_, maxd=4), why))
                elif size != ("field", bb, sides[sd][1]):
                    bad.append("corners are scaled to %s but the overlapping side is the %s side" % (show(size, maxd=3), sd))
    rep.check(not bad and seen == set(sides) and scaled >= 4, "R18.7", "confine:sides",
              "CornerRadii::confine must measure the overlap of the radii along each of the four sides and scale all corners by box extent / radii sum of one side: %s"
              % ("; ".join(sorted(set(bad))[:3]) or "sides measured: %s, scaling paths: %d" % (sorted(seen), scaled)), at=f.span, fn=f.path, detail={"paths": len(summs), "sides": sorted(seen)})


def corner_search_whole_row(prog, rep):
    """R18.9 the rows of a rounded rectangle's point set are cut by searching the row for the first / last column inside
    the corner ellipse.  A corner may be as wide as the rectangle (confine_corners only bounds the *sum* of two
    neighbouring radii), so the search has to run over the rectangle's whole column range: every column iterator that
    rounded_rectangle::points::Scanlines::next pulls from (searches walked once) is the `columns` range of the
    RoundedRectangleContains, or a clone of it."""
    SC = PRIM + "rounded_rectangle::points::Scanlines"
    RC = PRIM + "rounded_rectangle::RoundedRectangleContains"
    try:
        nx = prog.method1(SC, "next", "core::iter::traits::iterator::Iterator")
        fi = {f["name"]: i for i, f in enumerate(prog.adts[RC]["variants"][0]["fields"])}
        holder = [i for i, f in enumerate(prog.adts[SC]["variants"][0]["fields"]) if isinstance(f["ty"], dict) and f["ty"].get("adt") == RC][0]
        cols, rows = fi["columns"], fi["rows"]
    except Exception as e:
        rep.fail("R18.9", "rounded_rectangle:corner-search-row", "anchor lost: %r" % (e,), status="undecided")
        return
    subjects = {}
    try:
        summs = Paths(prog, inline=lambda g: prog.is_new(g), loops="once", limit=6000).of(nx)
    except Unsupported as e:
        rep.fail("R18.9", "rounded_rectangle:corner-search-row", "cannot summarise: %s" % e, status="undecided", at=nx.span, fn=nx.path)
        return
    for sm in summs:
        for tr in [x for fc in sm.facts for x in fc[1:]] + [sm.ret] + [e_[1] if e_[0] == "call" else e_[2] for e_ in sm.effects]:
            if not isinstance(tr, tuple) or not tr or not isinstance(tr[0], str):
                continue
            for n in walk(tr):
                if isinstance(n, tuple) and n[0] == "call" and n[1].split("::")[-1] in ("next", "next_back", "nth", "nth_back", "find", "rfind", "position", "rposition") and n[3] and n[1].startswith("core::iter"):
                    it = strip_refs(n[3][0])
                    while it[0] == "call" and it[1].split("::")[-1] in ("into_iter", "by_ref", "clone", "rev") and len(it[3]) == 1:
                        it = strip_refs(it[3][0])
                    subjects[it] = n[1].split("::")[-1]
    self_rc = ("field", P(1, "self"), holder)
    want_cols, want_rows = ("field", self_rc, cols), ("field", self_rc, rows)
    col_searches = {t: k for t, k in subjects.items() if t != want_rows}
    bad = [show(t, maxd=5) for t in col_searches if t != want_cols]
    rep.check(bool(col_searches) and not bad, "R18.9", "rounded_rectangle:corner-search-row",
              "the first / last column of a rounded rectangle row must be searched over the rectangle's whole column range (a corner can be wider than half the rectangle); found a search over %s" % ("; ".join(sorted(bad)[:2]) or "nothing"),
              at=nx.span, fn=nx.path, detail={"searched": sorted(show(t, maxd=4) for t in col_searches)})
