"""Stream-position rules for the two re-cutting colour iterators (C03 `iterator::contiguous::Cropped`,
C09 `image_raw::ContiguousPixels`): which source item is emitted for which (column, row), and how many.

Method: per path of `next()` the updates of the counter fields and the pull (`next()` consumes 1 item and
yields source index S, `nth(k)` consumes k+1 and yields S+k) are extracted from MIR; the rule supplies the
coordinate functions c(state), r(state) and the row stride.  With the ghost invariant
    S = S0 + r(state)*stride + c(state)
an emitting path yields the item of coordinate (c(after)-1, r(after)) and preserves the invariant iff
    (r(after)-r(before))*stride + c(after) - c(before) - k - 1 == 0
under the path's facts — a polynomial identity after substituting the equalities the path implies
(a <= b from an invariant plus !(a < b) gives a = b).  A stopping path needs count(state) == 0 and an emitting
path count(after) = count(before) - 1, so exactly count(initial) items are emitted.  Supplied invariants
(e.g. x <= width) are themselves checked to be inductive.  Constructors are checked separately."""
from mirq.cfg import CFG
from mirq.origin import Origins, show, enum_paths, path_conditions, lit_truth, decisions
from mirq.pat import match, strip_refs
from mirq.poly import Poly, tree_to_poly, NotPolynomial
from rules.c10 import fold

P = lambda i, n: ("param", i, n)


class Facts:
    """conjunction of p >= 0 facts over polynomials; derives equalities p = 0 and substitutes them"""

    def __init__(self):
        self.ge = []

    def add_ge(self, p):
        self.ge.append(p)

    def add_lit(self, d, truth, leaf):
        """d: folded comparison tree; truth: bool"""
        if d[0] != "bin" or d[1] not in ("Lt", "Le", "Gt", "Ge", "Eq", "Ne"):
            return
        try:
            a, b = tree_to_poly(d[2], leaf), tree_to_poly(d[3], leaf)
        except NotPolynomial:
            return
        op = d[1]
        if not truth:
            op = {"Lt": "Ge", "Le": "Gt", "Gt": "Le", "Ge": "Lt", "Eq": "Ne", "Ne": "Eq"}[op]
        one = Poly.const(1)
        if op == "Lt":
            self.add_ge(b - a - one)
        elif op == "Le":
            self.add_ge(b - a)
        elif op == "Gt":
            self.add_ge(a - b - one)
        elif op == "Ge":
            self.add_ge(a - b)
        elif op == "Eq":
            self.add_ge(a - b)
            self.add_ge(b - a)

    def equalities(self):
        """polys p with p >= 0 and -p >= 0 among the facts (also via p >= 0 and -p - c >= 0 contradictions ignored)"""
        out = []
        for i, p in enumerate(self.ge):
            for q in self.ge[i + 1:]:
                if (p + q).is_zero():
                    out.append(p)
        return out

    def substitutions(self):
        """[(symbol, poly)] solving the equalities for a symbol with coefficient +-1 occurring linearly"""
        subs = []
        for p in self.equalities():
            for mono, coef in p.t.items():
                if len(mono) == 1 and abs(coef) == 1:
                    s = mono[0]
                    if all(s not in m or m == mono for m in p.t):
                        rest = Poly({m: c for m, c in p.t.items() if m != mono})
                        # coef*s + rest = 0  ->  s = -rest/coef
                        subs.append((s, rest * Poly.const(-1 / coef) if coef == 1 else rest))
                        break
        return subs

    def simplify(self, p):
        for _ in range(4):
            for s, v in self.substitutions():
                p = p.subs(s, v)
        return p

    def implies_ge(self, q):
        """q >= 0 follows if q (after substitutions) is a non-negative constant, or equals a fact or a sum of two
        facts plus a non-negative constant"""
        q = self.simplify(q)
        if _nonneg_const(q):
            return True
        fs = [self.simplify(f) for f in self.ge]
        for f in fs:
            if _nonneg_const(q - f):
                return True
        for i, f in enumerate(fs):
            for g in fs[i:]:
                if _nonneg_const(q - f - g):
                    return True
        return False


def _nonneg_const(p):
    return all(m == () for m in p.t) and (p.t.get((), 0) >= 0)


def path_model(nx, path, syms, iter_field, fidx):
    """-> (facts, after{sym: Poly}, pulls[(kind, k Poly)], returns_none: bool)"""
    po = Origins(nx, path=path)
    last = len(path) - 1
    selff = lambda n: ("field", ("deref", P(1, "self")), fidx[n])
    leafmap = {}
    for name, s in syms.items():
        if isinstance(name, tuple):
            leafmap[("field", selff(name[0]), name[1])] = s
        else:
            leafmap[selff(name)] = s
    leaf = lambda t: leafmap.get(t)
    facts = Facts()
    for d, lit in path_conditions(nx, path, po):
        tv = lit_truth(lit)
        if tv is None:
            continue
        facts.add_lit(fold(d), tv, leaf)
    after = {}
    for name, s in syms.items():
        if isinstance(name, tuple):
            tree = po._place(1, ("*", ("f", fidx[name[0]]), ("f", name[1])), last, po.end(last))
        else:
            tree = po._place(1, ("*", ("f", fidx[name])), last, po.end(last))
        after[s] = tree_to_poly(fold(tree), leaf)
    pulls = []
    for k, b in enumerate(path):
        t = nx.body["blocks"][b]["t"]
        if t and t["k"] == "call" and t["f"].get("name") in ("next", "nth"):
            args = po.term_args(k)
            recv = strip_refs(args[0])
            if match(recv, ("field", P(1, "self"), fidx[iter_field])) is None:
                continue
            if t["f"]["name"] == "next":
                pulls.append(("next", Poly.const(0)))
            else:
                pulls.append(("nth", tree_to_poly(fold(args[1]), leaf)))
    ret = strip_refs(po.return_origin())
    returns_none = ret[0] == "agg" and ret[1].endswith("Option::None")
    return facts, after, pulls, returns_none


def check_stream(prog, rep, rule, key, nx, fidx, syms, iter_field, c_fn, r_fn, stride, count_fn, invariants, unsigned):
    """syms: {field name | (field, subfield): symbol}; c_fn/r_fn/count_fn: dict sym->Poly -> Poly (built from symbols);
    invariants: list of functions state->Poly meaning poly >= 0; unsigned: symbols known >= 0"""
    cfg = CFG(nx.body)
    ident = {s: Poly.sym(s) for s in syms.values()}
    probs = []
    n_emit = n_stop = 0
    for path in enum_paths(cfg, 0, None, 128):
        try:
            facts, after, pulls, none = path_model(nx, path, syms, iter_field, fidx)
        except NotPolynomial as e:
            probs.append("counter update not polynomial: %s" % e)
            continue
        for s in unsigned:
            facts.add_ge(Poly.sym(s))
        for inv in invariants:
            facts.add_ge(inv(ident))
        if not pulls:
            n_stop += 1
            # stopping: nothing may remain
            if not none:
                probs.append("a path that pulls nothing does not return None")
            cnt = facts.simplify(count_fn(ident))
            if not (facts.implies_ge(Poly() - count_fn(ident)) or cnt.is_zero()):
                probs.append("iteration can stop while %s item(s) remain" % cnt)
            continue
        n_emit += 1
        if len(pulls) != 1:
            probs.append("a path pulls %d times from the source" % len(pulls))
            continue
        kind, k = pulls[0]
        delta = (r_fn(after) - r_fn(ident)) * stride(ident) + c_fn(after) - c_fn(ident) - k - Poly.const(1)
        d2 = facts.simplify(delta)
        if not d2.is_zero():
            probs.append("on the path pulling with %s(%s) the emitted source index is off by %s from the item of the next (column, row) in row-major order" % (kind, k, d2))
        dc = facts.simplify(count_fn(after) - count_fn(ident) + Poly.const(1))
        if not dc.is_zero():
            probs.append("an emitting path changes the remaining count by %s instead of -1" % facts.simplify(count_fn(after) - count_fn(ident)))
        # invariants are inductive
        for inv in invariants:
            if not facts.implies_ge(inv(after)):
                probs.append("supplied invariant %s >= 0 is not preserved on an emitting path" % inv(ident))
    rep.check(not probs and n_emit >= 2 and n_stop >= 1, rule, key, "; ".join(probs[:3]) or "expected at least two emitting paths and one stopping path (found %d / %d)" % (n_emit, n_stop),
              at=nx.span, fn=nx.path, status="undecided" if any("not polynomial" in p_ or "invariant" in p_ for p_ in probs) else "refuted",
              detail={"emitting_paths": n_emit, "stopping_paths": n_stop})
    return not probs


# ---- the two instances ---------------------------------------------------------------------------------------
def cropped(prog, rep, rule="R03.7"):
    CR = "embedded_graphics::iterator::contiguous::Cropped"
    fidx = {f["name"]: i for i, f in enumerate(prog.adts[CR]["variants"][0]["fields"])}
    nx = prog.method1(CR, "next", "core::iter::traits::iterator::Iterator")
    syms = {"x": "x", "y": "y", ("size", 0): "w", ("size", 1): "h", "row_skip": "k"}
    W = lambda st: st["w"] + st["k"]
    # count: (h - y) * w - x   for y < h (the stopping paths establish it is 0)
    ok = check_stream(prog, rep, rule, "contiguous::Cropped::next", nx, fidx, syms, "iter",
                      c_fn=lambda st: st["x"], r_fn=lambda st: st["y"], stride=W,
                      count_fn=lambda st: (st["h"] - st["y"]) * st["w"] - st["x"],
                      invariants=[lambda st: st["w"] - st["x"]], unsigned=["x", "y", "w", "h", "k"])
    # constructor
    nw = prog.method1(CR, "new", None)
    RECT = "embedded_graphics_core::primitives::rectangle::Rectangle"
    crop = ("call", "*Rectangle::intersection", "_", (("call", "*Rectangle::new", "_", (("call", "*Point::zero", "_", ()), P(2, "size"))), P(3, "crop_area")))
    good = True
    why = []
    n_paths = 0
    for lits, ret, path in decisions(nw):
        r = fold(strip_refs(ret))
        if r[0] != "agg":
            good = False
            continue
        n_paths += 1
        ops = r[2]
        tl = ("field", crop, 0)
        csz = ("field", crop, 1)
        if match(ops[fidx["size"]], csz) is None:
            good = False
            why.append("size must be the crop area's size (crop = Rectangle(zero, size) ∩ crop_area); found %s" % show(ops[fidx["size"]], maxd=5))
        if ops[fidx["x"]] != ("const", 0) or ops[fidx["y"]] != ("const", 0):
            good = False
            why.append("x and y must start at 0")
        if match(ops[fidx["row_skip"]], ("bin", "Sub", ("field", P(2, "size"), 0), ("field", csz, 0))) is None:
            good = False
            why.append("row_skip must be size.width - crop.size.width; found %s" % show(ops[fidx["row_skip"]], maxd=6))
        # initial consumption: nth(initial_skip - 1) under initial_skip > 0, initial_skip = crop.y * size.width + crop.x
        init = ("bin", "Add", ("bin", "Mul", ("field", tl, 1), ("field", P(2, "size"), 0)), ("field", tl, 0))
        po = Origins(nw, path=path)
        pulled = None
        for k_, b in enumerate(path):
            t = nw.body["blocks"][b]["t"]
            if t and t["k"] == "call" and t["f"].get("name") in ("nth", "next", "skip", "advance_by"):
                a = [fold(strip_refs(x)) for x in po.term_args(k_)]
                pulled = (t["f"]["name"], a[1] if len(a) > 1 else None)
        gt0 = None
        for d, lit in lits:
            d = fold(strip_refs(d))
            if match(d, ("bin", "Gt", init, ("const", 0))) is not None:
                gt0 = lit_truth(lit)
            if match(d, ("bin", "Eq", init, ("const", 0))) is not None:
                gt0 = not lit_truth(lit)
            if match(d, ("bin", "Ne", init, ("const", 0))) is not None:
                gt0 = lit_truth(lit)
        if gt0 is True:
            if not (pulled and pulled[0] == "nth" and match(pulled[1], ("bin", "Sub", init, ("const", 1))) is not None):
                good = False
                why.append("with initial_skip > 0 exactly initial_skip items must be discarded (nth(initial_skip - 1)); found %s" % (pulled,))
        elif gt0 is False:
            if pulled is not None:
                good = False
                why.append("with initial_skip == 0 nothing may be discarded")
        else:
            good = False
            why.append("initial_skip = crop.top_left.y * size.width + crop.top_left.x not recognised")
    rep.check(good and n_paths >= 2, rule, "contiguous::Cropped::new", "; ".join(why[:3]) or "constructor paths not recognised", at=nw.span, fn=nw.path,
              status="undecided")
    rep.sample({"rule": rule, "Cropped": "item (c, r) of the crop = source index (y0 + r) * W + x0 + c; (h - y) * w - x items remain"})


def contiguous_pixels(prog, rep, rule="R09.5"):
    CP = "embedded_graphics::image::image_raw::ContiguousPixels"
    fidx = {f["name"]: i for i, f in enumerate(prog.adts[CP]["variants"][0]["fields"])}
    nx = prog.method1(CP, "next", "core::iter::traits::iterator::Iterator")
    syms = {"remaining_x": "rx", "remaining_y": "ry", "width": "w", "row_skip": "k"}
    # coordinates: c = w - rx ; r = -ry (up to the constant height-1, which cancels in differences)
    check_stream(prog, rep, rule, "ContiguousPixels::next", nx, fidx, syms, "iter",
                 c_fn=lambda st: st["w"] - st["rx"], r_fn=lambda st: Poly() - st["ry"], stride=lambda st: st["w"] + st["k"],
                 count_fn=lambda st: st["rx"] + st["ry"] * st["w"],
                 invariants=[], unsigned=["rx", "ry", "w", "k"])
    # initial consumption in new(): nth(initial_skip - 1) under initial_skip > 0
    nw = prog.method1(CP, "new", None)
    good = True
    n = 0
    for lits, ret, path in decisions(nw):
        po = Origins(nw, path=path)
        pulled = None
        for k_, b in enumerate(path):
            t = nw.body["blocks"][b]["t"]
            if t and t["k"] == "call" and t["f"].get("name") in ("nth", "next"):
                a = [fold(strip_refs(x)) for x in po.term_args(k_)]
                pulled = (t["f"]["name"], a[1] if len(a) > 1 else None)
        gt0 = None
        for d, lit in lits:
            d = fold(strip_refs(d))
            if match(d, ("bin", "Gt", P(3, "initial_skip"), ("const", 0))) is not None:
                gt0 = lit_truth(lit)
        n += 1
        if gt0 is True:
            good = good and pulled is not None and pulled[0] == "nth" and match(pulled[1], ("bin", "Sub", P(3, "initial_skip"), ("const", 1))) is not None
        elif gt0 is False:
            good = good and pulled is None
        else:
            good = False
        r = strip_refs(ret)
        good = good and r[0] == "agg" and r[2][fidx["row_skip"]] == P(4, "row_skip")
    rep.check(good and n >= 2, rule, "ContiguousPixels::new:initial-skip", "new() must discard exactly initial_skip items (nth(initial_skip - 1) iff initial_skip > 0) and store row_skip unchanged", at=nw.span, fn=nw.path)
    rep.sample({"rule": rule, "ContiguousPixels": "colour (c, r) = raw item initial_skip + r * (width + row_skip) + c"})
