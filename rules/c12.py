"""C12 — colours survive the trip through their raw representation (bit-provenance proof)."""
from mirq import ty_str
from mirq.bits import BitEval, BV, Struct, Arr, Unknown, T
from mirq.origin import Origins, decisions, lit_truth, show
from mirq.pat import strip_refs, match

PC = "embedded_graphics_core::pixelcolor::"
PIXELCOLOR = PC + "PixelColor"
RGBT = PC + "rgb_color::RgbColor"
GRAYT = PC + "gray_color::GrayColor"
RAWDATA = PC + "raw::RawData"


def from_impl(prog, src, dst):
    out = []
    for i in prog.impls.values():
        if i.get("trait") == "core::convert::From" and "from" in i["fns"] and isinstance(i["self_ty"], dict) and i["self_ty"].get("adt") == dst:
            s = i["trait_args"][1]
            if isinstance(s, dict) and s.get("adt") == src:
                out.append(prog.fns[i["fns"]["from"]])
    return out[0] if len(out) == 1 else None


def storage_bits(v):
    """innermost integer of a colour / raw struct value"""
    while isinstance(v, Struct) and len(v.fields) == 1:
        v = v.fields[0]
    return v if isinstance(v, BV) else None


def raw_info(prog):
    rawinfo = {}
    for i in prog.impls.values():
        if i.get("trait") == RAWDATA and isinstance(i["self_ty"], dict) and "adt" in i["self_ty"]:
            rawinfo[i["self_ty"]["adt"]] = dict(bpp=i["consts"]["BITS_PER_PIXEL"].get("v"), mask=i["consts"]["MASK"].get("v"), impl=i)
    return rawinfo


def raw_invariant(prog, rep, be, rawinfo):
    """O0 — the class invariant of the raw types (bits at and above BITS_PER_PIXEL are zero) holds by construction.
    Shared with C10 / C11: the framebuffer and the sub-byte stores OR `into_inner() << shift` into a byte without
    masking, so they rely on it."""
    from mirq.bits import WIDTHS
    # ---- O0: raw types are masked by construction ---------------------------------------------------------
    for rty_, info in sorted(rawinfo.items()):
        rn = rty_.split("::")[-1]
        if rn == "()" or info["bpp"] in (None, 0):
            continue
        nw = prog.method1(rty_, "new", None)
        adt = prog.adts[rty_]
        w = adt["variants"][0]["fields"][0]["ty"]
        out = storage_bits(be.call_fn(nw, [BV.inp("v", WIDTHS[w])]))
        ok = out is not None and all(out.bit(j) == (("in", "v", j) if j < info["bpp"] else 0) for j in range(WIDTHS[w]))
        rep.check(ok, "O0", rn + "::new", "%s::new must keep exactly the low %d bits; got %r" % (rn, info["bpp"], out), at=nw.span, fn=nw.path)
    # new_unmasked skips the masking: every value handed to it must be masked already.  RawU24::load assembles its value
    # from exactly three bytes (audited by name); any other call site is decided in the bit domain: the argument, as a
    # function of the caller's parameters, has no bit at or above the type's width
    from mirq.origin import Origins as _Org
    bad = []
    n_sites = 0
    for f in sorted(prog.fns.values(), key=lambda f: f.id):
        if not f.body or "::tests::" in f.id:
            continue
        org = None
        for bi, b in enumerate(f.body["blocks"]):
            t = b["t"]
            if not (t and t["k"] == "call" and t["f"].get("name") == "new_unmasked"):
                continue
            n_sites += 1
            owners = {prog.fns[o].path for o in prog.owners(f)}
            if all("RawU24 as" in c and c.endswith("::load") for c in owners):
                continue
            rpath = (t["f"].get("resolved") or t["f"]).get("path", "")
            rinfo = [i for r_, i in rawinfo.items() if rpath == r_ + "::new_unmasked"]
            if len(rinfo) != 1 or f.kind == "closure":
                bad.append("%s calls new_unmasked in a way the bit analysis cannot follow" % f.key())
                continue
            org = org or _Org(f)
            arg = org.term_args(bi)[0]
            ins = f.d.get("inputs") or [f.body["locals"][i + 1]["ty"] for i in range(f.body["argc"])]
            env = {i + 1: be.input_of(ty_, "a%d" % i) for i, ty_ in enumerate(ins)}
            v = be.eval(arg, env, f)
            bpp = rinfo[0]["bpp"]
            if not (isinstance(v, BV) and all(v.bit(j) == 0 for j in range(bpp, max(len(v.bits), v.width or 0)))):
                bad.append("%s hands new_unmasked a value whose bits >= %d are not provably zero: %r" % (f.key(), bpp, v))
    # who constructs a raw value directly: the tuple struct can be built only inside the pixelcolor::raw module; every
    # aggregate of a raw type outside `new` (masks, checked above) and `new_unmasked` (its callers are checked here) must
    # store a value whose bits at and above the type's width are provably zero — `Self(value as u8)` in a generic
    # constructor such as `from_u32` hands unmasked bits to every reader that relies on the class invariant
    n_agg = 0
    bad2 = []
    for f in sorted(prog.fns.values(), key=lambda f: f.id):
        if not f.body or "::tests::" in f.id:
            continue
        org = None
        for bi, b in enumerate(f.body["blocks"]):
            for si, st in enumerate(b["s"]):
                if not (st["k"] == "assign" and st["rv"].get("k") == "agg"):
                    continue
                adt_ = st["rv"].get("adt")
                if adt_ not in rawinfo or rawinfo[adt_]["bpp"] in (None, 0):
                    continue
                n_agg += 1
                if f.path in (adt_ + "::new", adt_ + "::new_unmasked"):
                    continue
                bpp = rawinfo[adt_]["bpp"]
                wdt = WIDTHS[prog.adts[adt_]["variants"][0]["fields"][0]["ty"]]
                if bpp >= wdt:
                    continue                   # every value of the storage type is a valid raw value
                try:
                    org = org or _Org(f)
                    arg = org.operand(st["rv"]["ops"][0], bi, si)
                    ins = f.d.get("inputs") or [f.body["locals"][i + 1]["ty"] for i in range(f.body["argc"])]
                    env = {i + 1: be.input_of(ty_, "a%d" % i) for i, ty_ in enumerate(ins)}
                    if arg[0] == "call" and arg[1].endswith("::default") and not arg[3]:
                        v = BV.const(0, wdt)
                    else:
                        v = be.eval(arg, env, f)
                except Exception as e:     # the bit domain cannot follow: not a pass
                    v = None
                if not (isinstance(v, BV) and all(v.bit(j) == 0 for j in range(bpp, max(len(v.bits), v.width or 0)))):
                    bad2.append("%s builds %s directly from a value whose bits >= %d are not provably zero: %r" % (f.key(), adt_.split("::")[-1], bpp, v))
    rep.floor("O0", "raw value constructions", n_agg, 7)   # at least one constructor per raw type
    rep.check(not bad2, "O0", "direct-construction", "a raw value built outside new / new_unmasked must be masked: %s" % "; ".join(bad2[:3]))
    rep.check(not bad and n_sites >= 1, "O0", "new_unmasked-callers", "new_unmasked (no masking) may only receive values that are masked already: %s" % "; ".join(bad[:3]))



def run(ctx, rep):
    prog = ctx.program("default")
    rep.configs.append(getattr(ctx, "alias", "default"))
    be = BitEval(prog)
    colours = []
    for i in prog.impls.values():
        if i.get("trait") == PIXELCOLOR and isinstance(i["self_ty"], dict) and "adt" in i["self_ty"]:
            raw = i["types"].get("Raw")
            colours.append((i["self_ty"]["adt"], raw.get("adt") if isinstance(raw, dict) else None))
    rep.floor("C12", "colour types", len(colours), 14)
    rawinfo = {}
    for i in prog.impls.values():
        if i.get("trait") == RAWDATA and isinstance(i["self_ty"], dict) and "adt" in i["self_ty"]:
            rawinfo[i["self_ty"]["adt"]] = dict(bpp=i["consts"]["BITS_PER_PIXEL"].get("v"), mask=i["consts"]["MASK"].get("v"), impl=i)
    gen_storage = prog.by_path.get("<C as " + PC + "IntoStorage>::into_storage", [None])[0]
    gen_be = prog.by_path.get("<C as " + PC + "raw::to_bytes::ToBytes>::to_be_bytes", [None])[0]
    gen_le = prog.by_path.get("<C as " + PC + "raw::to_bytes::ToBytes>::to_le_bytes", [None])[0]
    gen_ne = prog.by_path.get("<C as " + PC + "raw::to_bytes::ToBytes>::to_ne_bytes", [None])[0]
    rep.check(all(x is not None for x in (gen_storage, gen_be, gen_le, gen_ne)), "O6", "anchors", "generic IntoStorage/ToBytes impls not found", status="undecided")

    raw_invariant(prog, rep, be, rawinfo)

    for cty, rty in sorted(colours):
        name = cty.split("::")[-1]
        if rty is None or rty not in rawinfo:
            rep.fail("C12", name, "colour type without a RawData raw type", status="undecided")
            continue
        n = rawinfo[rty]["bpp"]
        if name == "BinaryColor":
            binary(prog, rep, be, cty, rty)
            continue
        c_in = be.input_of({"adt": cty, "args": []}, "c")
        raw_in = be.input_of({"adt": rty, "args": []}, "raw")
        # class invariant of the raw types (checked by O0 below): bits >= BITS_PER_PIXEL are zero
        rb = storage_bits(raw_in)
        for j in range(n, rb.width):
            rb.bits[j] = 0
        sw = storage_bits(c_in).width
        to_raw = from_impl(prog, cty, rty)
        from_raw = from_impl(prog, rty, cty)
        if to_raw is None or from_raw is None:
            rep.fail("C12", name + ":conversions", "From<%s> / Into<%s> impls not found" % (rty, rty), status="undecided")
            continue
        is_rgb = any(i.get("trait") == RGBT and i["self_ty"].get("adt") == cty for i in prog.impls.values())
        new = prog.method1(cty, "new", None)
        # ---- constructors and the class invariant: which storage bits can ever be non-zero ----------------
        if is_rgb:
            chans = ["r", "g", "b"]
            new_out = be.call_fn(new, [BV.inp(ch, 8) for ch in chans])
        else:
            chans = ["luma"]
            new_out = be.call_fn(new, [BV.inp("luma", 8)])
        nb = storage_bits(new_out)
        fr = storage_bits(be.call_fn(from_raw, [raw_in]))
        if nb is None or fr is None:
            rep.fail("O4", name + ":new", "cannot evaluate constructors in the bit domain: new=%r from_raw=%r" % (new_out, be.call_fn(from_raw, [raw_in])), status="undecided", at=new.span, fn=new.path)
            continue
        valid = {j for j in range(sw) if nb.bit(j) != 0 or fr.bit(j) != 0}
        rep.check(valid <= set(range(n)) and T not in nb.bits and T not in fr.bits, "O3", name + ":valid-bits",
                  "constructors can set storage bits %s but the raw value must fit in %d bits" % (sorted(valid - set(range(n))), n), at=new.span, fn=new.path,
                  detail={"new": repr(nb), "from_raw": repr(fr)})
        # unused bits: the channels occupy the low sum(channel widths) bits; everything above is cleared by every
        # constructor, also by From<Raw> (raw -> colour -> raw "only clears unused bits", and equal channels = equal colours)
        chan_consts = {}
        for i_ in prog.impls.values():
            if isinstance(i_["self_ty"], dict) and i_["self_ty"].get("adt") == cty:
                for cn in ("MAX_R", "MAX_G", "MAX_B", "MAX_LUMA"):
                    v_ = i_["consts"].get(cn, {}).get("v")
                    while isinstance(v_, dict) and "fields" in v_:
                        v_ = v_["fields"].get("0")
                    if isinstance(v_, int):
                        chan_consts[cn] = v_
        nch = sum(v_.bit_length() for v_ in chan_consts.values())
        if nch:
            stray = sorted(j for j in valid if j >= nch)
            rep.check(not stray, "O3", name + ":unused-bits", "a constructor (new / From<%s>) can leave storage bit(s) %s set, but the channels occupy only the low %d bits: unused bits must be cleared" % (rty.split("::")[-1], stray, nch),
                      at=from_raw.span, fn=from_raw.path, detail={"new": repr(nb), "from_raw": repr(fr)})
        else:
            rep.fail("O3", name + ":unused-bits", "channel maxima (MAX_R/G/B or MAX_LUMA) not found", status="undecided")
        # class-invariant input: bits outside `valid` are 0
        cinv = be.input_of({"adt": cty, "args": []}, "c")
        sb = storage_bits(cinv)
        for j in range(sw):
            if j not in valid:
                sb.bits[j] = 0
        # ---- O1: raw -> colour -> raw only clears bits ---------------------------------------------
        back = storage_bits(be.call_fn(to_raw, [be.call_fn(from_raw, [raw_in])]))
        rin = storage_bits(raw_in)
        ok = back is not None and all(back.bit(j) in (0, rin.bit(j)) for j in range(sw)) and all(back.bit(j) == 0 for j in range(n, sw))
        rep.check(ok, "O1", name, "raw -> colour -> raw must only clear unused bits (idempotent); got %r" % (back,), at=from_raw.span, fn=from_raw.path, detail=repr(back))
        # ---- O2: colour -> raw -> colour is the identity under the class invariant ----------------------
        rt = storage_bits(be.call_fn(from_raw, [be.call_fn(to_raw, [cinv])]))
        ok = rt is not None and all(rt.bit(j) == sb.bit(j) for j in range(sw))
        lost = [j for j in range(sw) if rt is None or rt.bit(j) != sb.bit(j)]
        rep.check(ok, "O2", name, "colour -> raw -> colour must be the identity for every value a constructor can produce; storage bit(s) %s are not preserved (they can be set by a constructor: new=%r, from raw=%r)" % (lost, nb, fr),
                  at=to_raw.span, fn=to_raw.path, detail=repr(rt))
        # ---- O3: into raw has no bits >= BITS_PER_PIXEL ----------------------------------------------
        r1 = storage_bits(be.call_fn(to_raw, [cinv]))
        ok = r1 is not None and all(r1.bit(j) == 0 for j in range(n, sw)) and all(r1.bit(j) == sb.bit(j) for j in range(n))
        rep.check(ok, "O3", name, "Into<Raw> must expose exactly the colour's bits in the low %d bits; got %r" % (n, r1), at=to_raw.span, fn=to_raw.path)
        # ---- O4/O5: channels -----------------------------------------------------------------------------
        if is_rgb:
            consts = [i for i in prog.impls.values() if i.get("trait") == RGBT and i["self_ty"].get("adt") == cty][0]["consts"]
            widths = {"r": consts["MAX_R"]["v"].bit_length(), "g": consts["MAX_G"]["v"].bit_length(), "b": consts["MAX_B"]["v"].bit_length()}
            pos = {}
            good = True
            why = []
            for ch in chans:
                js = [j for j in range(sw) if isinstance(nb.bit(j), tuple) and nb.bit(j)[1] == ch]
                if not js:
                    good = False
                    why.append("channel %s does not reach the storage" % ch)
                    continue
                lo = min(js)
                pos[ch] = lo
                exp = {lo + k: ("in", ch, k) for k in range(widths[ch])}
                got = {j: nb.bit(j) for j in js}
                if got != exp:
                    good = False
                    why.append("new() stores %s as %s, expected bits %d..%d = %s[0..%d]" % (ch, {j: "%s[%d]" % (b[1], b[2]) for j, b in got.items()}, lo, lo + widths[ch] - 1, ch, widths[ch]))
            if T in nb.bits:
                good = False
                why.append("new() mixes inputs in storage bit(s) %s (not a pure shift/mask placement)" % [j for j in range(sw) if nb.bit(j) == T])
            if good:
                spans = sorted((pos[ch], pos[ch] + widths[ch]) for ch in chans)
                if any(spans[k][1] > spans[k + 1][0] for k in range(2)) or spans[0][0] != 0 or any(spans[k][1] != spans[k + 1][0] for k in range(2)):
                    good = False
                    why.append("channel fields %s are not disjoint and contiguous from bit 0" % spans)
            rep.check(good, "O4", name + ":new", "; ".join(why), at=new.span, fn=new.path, detail=repr(nb))
            for ch in chans:
                acc = prog.method1(cty, ch, RGBT)
                v = be.call_fn(acc, [new_out])
                ok = isinstance(v, BV) and all(v.bit(j) == (("in", ch, j) if j < widths[ch] else 0) for j in range(8))
                rep.check(ok, "O4", "%s:%s()" % (name, ch), "new(r,g,b).%s() must return %s modulo its width %d; got %r" % (ch, ch, widths[ch], v), at=acc.span, fn=acc.path)
            if good:
                order = sorted(chans, key=lambda c_: -pos[c_])
                want = ["r", "g", "b"] if name.startswith("Rgb") else ["b", "g", "r"]
                rep.check(order == want, "O5", name, "documented layout: %s types carry %s in the most significant bits; found order %s (positions %s)" % (name[:3], want[0], order, pos), at=new.span, fn=new.path)
            rep.sample({"type": name, "new": repr(nb), "valid_bits": sorted(valid)}) if name in ("Rgb565", "Bgr666", "Rgb332") else None
        else:
            acc = prog.method1(cty, "luma", GRAYT)
            v = be.call_fn(acc, [new_out])
            ok = isinstance(v, BV) and all(v.bit(j) == (("in", "luma", j) if j < n else 0) for j in range(8))
            rep.check(ok, "O4", name + ":luma()", "new(l).luma() must return l modulo 2^%d; got %r" % (n, v), at=acc.span, fn=acc.path)
        # ---- O6: into_storage / to_be_bytes / to_le_bytes describe the same value ----------------------------
        if gen_storage is not None:
            st = be.call_fn(gen_storage, [cinv])
            ok = isinstance(st, BV) and r1 is not None and all(st.bit(j) == r1.bit(j) for j in range(max(sw, st.width or 0)))
            rep.check(ok, "O6", name + ":into_storage", "into_storage must be the raw value's bits; got %r vs raw %r" % (st, r1), at=gen_storage.span, fn=gen_storage.path)
            nbytes = (n + 7) // 8
            from mirq.bits import NATIVE_ENDIAN
            for f, endian, label in ((gen_be, "be", "be"), (gen_le, "le", "le"), (gen_ne, NATIVE_ENDIAN, "ne")):
                if f is None:
                    continue
                arr = be.call_fn(f, [cinv])
                if not isinstance(arr, Arr):
                    # a branch on a compile-time constant (`if cfg!(target_endian = "big")`) joins two values in the
                    # all-paths tree; the path summaries keep only the branch the constant selects
                    try:
                        from mirq.paths import Paths as _P, Unsupported as _U
                        if not hasattr(prog, "_c12_paths"):
                            prog._c12_paths = _P(prog, inline=lambda g: prog.is_new(g))
                        ss_ = prog._c12_paths.of(f)
                        if len(ss_) == 1 and not ss_[0].effects:
                            arr2 = be.eval(ss_[0].ret, {1: cinv}, f)
                            if isinstance(arr2, Arr):
                                arr = arr2
                    except Exception:
                        pass
                ok = isinstance(arr, Arr) and len(arr.items) == nbytes and all(isinstance(x, BV) for x in arr.items)
                if ok:
                    for i_, by in enumerate(arr.items):
                        src = i_ if endian == "le" else nbytes - 1 - i_
                        for k in range(8):
                            if by.bit(k) != r1.bit(8 * src + k):
                                ok = False
                unknown = not isinstance(arr, Arr) or any(not isinstance(x, BV) or any(by_ == T for by_ in x.bits) for x in arr.items)
                rep.check(ok, "O6", "%s:to_%s_bytes" % (name, label), "to_%s_bytes must serialise the raw value's low %d byte(s) in %s-endian order%s; got %r for raw %r" % (label, nbytes, endian, " (native order of the analysed build)" if label == "ne" else "", arr, r1), at=f.span, fn=f.path,
                          status="undecided" if unknown else "refuted")


def binary(prog, rep, be, cty, rty):
    """BinaryColor <-> RawU1 via decision tables (finite enum)."""
    to_raw = from_impl(prog, cty, rty)
    from_raw = from_impl(prog, rty, cty)
    if to_raw is None or from_raw is None:
        rep.fail("C12", "BinaryColor", "conversions not found", status="undecided")
        return
    # from raw: On iff value != 0 — on path summaries, the colour's own helpers (From<bool>, map_color ..) inlined
    from mirq.paths import Paths, Unsupported, holds, violated, variant_of
    t = {}
    try:
        for sm in Paths(prog, inline=lambda g: prog.is_new(g) or "BinaryColor" in g.path).of(from_raw):
            vo = variant_of(sm.ret)
            v = vo[1] if vo is not None else None
            subj = [x for f_ in sm.facts for x in f_[1:] if isinstance(x, tuple) and ((x[0] == "call" and x[1].endswith("into_inner")) or (x[0] == "field" and strip_refs(x[1])[0] == "param"))]
            if not subj:
                t[None] = v
                continue
            goal = ("ne", subj[0], ("const", 0))
            if holds(sm.facts, goal):
                t[True] = v if t.get(True, v) == v else "?"
            elif violated(sm.facts, goal):
                t[False] = v if t.get(False, v) == v else "?"
            else:
                t[None] = v
    except Unsupported as e:
        t = {"?": str(e)}
    rep.check(t == {True: "On", False: "Off"}, "O2", "BinaryColor:from-raw", "From<RawU1> must map 0 to Off and 1 to On; found %s" % t, at=from_raw.span, fn=from_raw.path)
    # to raw: Off -> RawU1::new(0), On -> RawU1::new(1)
    ro = strip_refs(Origins(to_raw).return_origin())
    m = match(ro, ("call", "*BinaryColor::map_color", "_", (("param", 1, "_"), ("call", "*RawU1::new", "_", (("const", 0),)), ("call", "*RawU1::new", "_", (("const", 1),)))))
    ok = m is not None or match(ro, ("call", "*RawU1::new", "_", (("call", "*BinaryColor::map_color", "_", (("param", 1, "_"), ("const", 0), ("const", 1))),))) is not None
    if not ok:
        tt = {}
        for lits, ret, _ in decisions(to_raw):
            for d, lit in lits:
                if d[0] == "discr" and len(lit) == 1:
                    v = be.eval(ret, {}, to_raw)
                    sb = storage_bits(v)
                    tt[{0: "Off", 1: "On"}.get(lit[0])] = sb.as_int() if sb else None
        ok = tt == {"Off": 0, "On": 1}
    if not ok:
        # any other spelling (`RawU1::new(u8::from(color.is_on()))`): the path summaries with the colour's own helpers
        # inlined, one path per variant, the value evaluated in the bit domain
        try:
            tt = {}
            for sm in Paths(prog, inline=lambda g: prog.is_new(g) or "BinaryColor" in g.path).of(to_raw):
                vs = [fc[2] for fc in sm.facts if fc[0] == "variant" and strip_refs(fc[1])[0] == "param" and len(fc[2]) == 1]
                if len(vs) != 1 or len(sm.facts) != 1:
                    tt["?"] = None
                    continue
                v = be.eval(sm.ret, {}, to_raw)
                sb = storage_bits(v)
                tt[vs[0][0]] = sb.as_int() if sb else None
            ok = tt == {"Off": 0, "On": 1}
        except Unsupported:
            pass
    rep.check(ok, "O2", "BinaryColor:to-raw", "Into<RawU1> must map Off to 0 and On to 1; found %s" % show(ro, maxd=4), at=to_raw.span, fn=to_raw.path)
