"""R16.7 — Rectangle as a set of points: exact value / decision tables of the accessor and constructor functions.

Each function of the Rectangle API that the property names is summarised path by path with every crate-local callee
inlined (Point / Size arithmetic included) and compared, as integer polynomials over X = top_left.x, Y = top_left.y,
W = size.width, H = size.height (and the function's own arguments), with what "top-left plus size as a set of points"
means: columns X .. X+W-1, rows Y .. Y+H-1, empty iff W == 0 or H == 0.  Integer conversions between u32 and i32
(`as`, saturating_as) are treated as the identity: sizes are assumed to be below 2^31 (recorded as an assumption).

Compared are normal forms (mirq.poly.normal_form over canonicalised trees) and, for conditions, the polynomial
`rhs - lhs (- 1)` of every comparison fact; code shape does not matter."""
from mirq.origin import show, walk, subst
from mirq.pat import strip_refs
from mirq.paths import Paths, Unsupported, show_fact, variant_of
from mirq.poly import normal_form, Poly

RECT = "embedded_graphics_core::primitives::rectangle::Rectangle"
ME = ("param", 1, "self")
X, Y = ("field", ("field", ME, 0), 0), ("field", ("field", ME, 0), 1)
W, H = ("field", ("field", ME, 1), 0), ("field", ("field", ME, 1), 1)
C = lambda v: ("const", v)
add = lambda a, b: ("bin", "Add", a, b)
sub = lambda a, b: ("bin", "Sub", a, b)
div = lambda a, b: ("bin", "Div", a, b)
call = lambda name, *a: ("call", name, (), tuple(a))
CONV = ("saturating_as", "unsigned_abs_keep")
COMM = ("min", "max")
SHORT = {"saturating_sub": "ssub", "saturating_add": "sadd", "min": "min", "max": "max", "unsigned_abs": "uabs", "abs": "abs"}


def canon(t):
    """references, casts and u32<->i32 conversions dropped; min / max / saturating ops under short names with commutative
    arguments sorted; checked-arithmetic spellings folded"""
    def r(n):
        if n[0] in ("ref", "deref", "cast"):
            return canon(n[1])
        if n[0] == "call":
            nm = n[1].split("::")[-1]
            args = tuple(canon(a) for a in n[3])
            if nm == "saturating_as" and len(args) == 1:
                return args[0]
            if nm == "pow" and len(args) == 2 and args[1][0] == "const" and isinstance(args[1][1], int) and 1 <= args[1][1] <= 4 and ("core::num" in n[1] or "<impl " in n[1]):
                r_ = args[0]
                for _ in range(args[1][1] - 1):
                    r_ = ("bin", "Mul", r_, args[0])
                return r_                                        # x.pow(2) and x * x are the same polynomial
            if nm in ("into", "from", "try_into", "clone") and len(args) == 1 and ("convert" in n[1] or "clone" in n[1]):
                return args[0]
            if nm in SHORT and ("core::" in n[1] or "<impl " in n[1] or "Ord" in n[1] or n[1].startswith("cmp::")):
                if nm in COMM:
                    args = tuple(sorted(args, key=repr))
                return ("call", SHORT[nm], (), args)
            return ("call", n[1], (), args)
        if n[0] == "bin":
            op = n[1].replace("WithOverflow", "")
            return ("bin", op, canon(n[2]), canon(n[3]))
        if n[0] == "field" and n[1][0] == "bin" and n[2] == 0:
            return canon(n[1])
        return None
    return subst(t, r)


def nf(t):
    return normal_form(canon(t))


def same(a, b):
    pa, pb = nf(a), nf(b)
    return pa is not None and pb is not None and pa == pb


def cond_poly(f):
    """a comparison fact as `p >= 0` (integers): le(a,b) -> b-a ; lt(a,b) -> b-a-1 ; eq/ne keep their sign-less form"""
    if f[0] in ("le", "lt"):
        a, b = nf(f[1]), nf(f[2])
        if a is None or b is None:
            return None
        p = b - a
        if f[0] == "lt":
            p = p - Poly.const(1)
        return (">=0", repr(p))
    if f[0] in ("eq", "ne"):
        a, b = nf(f[1]), nf(f[2])
        if a is None or b is None:
            return None
        p = b - a
        if repr(p) > repr(-p):
            p = -p
        return (f[0], repr(p))
    return None


def ge0(t):
    return (">=0", repr(nf(t)))


def _artifact(f):
    """`0 <= (size as i32)`: the debug assertion inside Point + Size; true for every size below 2^31"""
    if f[0] == "le" and f[1] == C(0):
        x = f[2]
        return x[0] == "cast" and x[2] == "i32"
    return False


def run(prog, rep):
    inl = lambda g: g.crate in ("embedded_graphics_core", "embedded_graphics") if hasattr(g, "crate") else True
    P_ = Paths(prog, inline=lambda g: True, depth=6)
    rep.assume("sizes and coordinates at display scale: u32 <-> i32 conversions are exact (below 2^31), no i32 overflow")

    def summs(name, trait=None):
        f = prog.method1(RECT, name, trait)
        try:
            return f, P_.of(f)
        except Unsupported as e:
            rep.check(False, "R16.7", "Rectangle::" + name, "cannot summarise: %s" % e, status="undecided", at=f.span, fn=f.path)
            return f, None

    def facts_of(sm):
        out = set()
        for fct in sm.facts:
            if _artifact(fct):
                continue
            cp = cond_poly(fct)
            out.add(cp if cp is not None else ("?", show_fact(fct)[:120]))
        return out

    def unsigned_pos(t):
        """`t > 0` for an unsigned t, in any of its spellings"""
        return {ge0(sub(t, C(1))), ("ne", cond_poly(("ne", t, C(0)))[1])}

    def unsigned_zero(t):
        return {ge0(sub(C(0), t)), ("eq", cond_poly(("eq", t, C(0)))[1])}

    # ---- bottom_right: Some(X + W - 1, Y + H - 1) iff W > 0 and H > 0 ---------------------------------------------
    f, ss = summs("bottom_right")
    if ss is not None:
        bad, n_some = [], 0
        for sm in ss:
            vo = variant_of(sm.ret)
            fs = facts_of(sm)
            if vo is None:
                bad.append("a path returns %s" % show(sm.ret, maxd=3))
            elif vo[1] == "Some":
                n_some += 1
                if not (fs & unsigned_pos(W) and fs & unsigned_pos(H)):
                    bad.append("Some(..) is returned without both width > 0 and height > 0 established (%s)" % "; ".join(show_fact(x)[:40] for x in sm.facts[:3]))
                if fs - unsigned_pos(W) - unsigned_pos(H):
                    bad.append("Some(..) depends on a further condition %s" % sorted(fs - unsigned_pos(W) - unsigned_pos(H))[:1])
                v = sm.ret[2][0]
                comps = v[2] if v[0] == "agg" and len(v[2]) == 2 else None
                if comps is None or not same(comps[0], sub(add(X, W), C(1))) or not same(comps[1], sub(add(Y, H), C(1))):
                    bad.append("the corner must be (x + width - 1, y + height - 1); found %s" % show(v, maxd=5))
            else:
                if not (fs & unsigned_zero(W) or fs & unsigned_zero(H)):
                    bad.append("None is returned on a path that has not established width == 0 or height == 0 (%s)" % "; ".join(show_fact(x)[:60] for x in sm.facts[:3]))
        rep.check(not bad and n_some >= 1, "R16.7", "Rectangle::bottom_right", "bottom_right: %s" % ("; ".join(sorted(set(bad))[:2]) or "no Some path"), at=f.span, fn=f.path)

    # ---- boolean functions: the accepting conditions ----------------------------------------------------------------
    NEG = {"le": lambda a, b: ("lt", b, a), "lt": lambda a, b: ("le", b, a), "eq": lambda a, b: ("ne", a, b), "ne": lambda a, b: ("eq", a, b)}

    def outcomes(ss):
        """[(set of condition atoms, truth)] of a bool function: one entry per path, two for a path that returns a
        comparison (the comparison resp. its negation joins the path's facts); None if a return value is not understood"""
        out = []
        for sm in ss:
            r = sm.ret
            fs = facts_of(sm)
            if r in (C(True), C(False)):
                out.append((fs, r[1]))
            elif r[0] == "bin" and r[1] in ("Le", "Lt", "Ge", "Gt", "Eq", "Ne"):
                rel = {"Le": ("le", r[2], r[3]), "Lt": ("lt", r[2], r[3]), "Ge": ("le", r[3], r[2]), "Gt": ("lt", r[3], r[2]), "Eq": ("eq", r[2], r[3]), "Ne": ("ne", r[2], r[3])}[r[1]]
                for rl, tv in ((rel, True), (NEG[rel[0]](rel[1], rel[2]), False)):
                    cp = cond_poly(rl)
                    out.append((fs | {cp if cp is not None else ("?", show(r, maxd=4))}, tv))
            else:
                return None
        return out

    def accepting(ss):
        o = outcomes(ss)
        return None if o is None else [a for a, tv in o if tv]

    for name, trait in (("contains", None), ("contains", "embedded_graphics::primitives::ContainsPoint")):
        f, ss = summs(name, trait)
        if ss is None:
            continue
        px, py = ("field", ("param", 2, "point"), 0), ("field", ("param", 2, "point"), 1)
        want_core = [ge0(sub(px, X)), ge0(sub(py, Y)), ge0(sub(sub(add(X, W), C(1)), px)), ge0(sub(sub(add(Y, H), C(1)), py))]
        acc = accepting(ss)
        key = "Rectangle::contains" + (":trait" if trait else "")
        if acc is None:
            rep.check(False, "R16.7", key, "a return value of contains is not a comparison or constant", status="undecided", at=f.span, fn=f.path)
            continue
        bad = []
        if len(acc) != 1:
            bad.append("%d accepting paths (the inside of a rectangle is one conjunction)" % len(acc))
        for a in acc:
            rest = set(a)
            for w in want_core:
                if w not in rest:
                    bad.append("an accepted point need not satisfy %s" % w[1])
                rest.discard(w)
            # emptiness: implied by the four bounds when both are present (x <= p <= x+w-1 needs w >= 1); explicit tests are fine
            rest -= unsigned_pos(W) | unsigned_pos(H)
            if rest:
                bad.append("acceptance depends on a further condition: %s" % sorted(rest)[0][1][:120])
        rep.check(not bad, "R16.7", key, "contains(p) must hold exactly for x <= p.x <= x + width - 1 and y <= p.y <= y + height - 1: %s" % "; ".join(sorted(set(bad))[:2]), at=f.span, fn=f.path)

    f, ss = summs("is_zero_sized")
    if ss is not None:
        oc = outcomes(ss)
        bad = []
        if oc is None:
            bad.append("return value not understood")
        else:
            # true exactly when W == 0 or H == 0: every true outcome has established one of them, every false outcome
            # both width > 0 and height > 0; no other condition takes part
            allowed = unsigned_zero(W) | unsigned_zero(H) | unsigned_pos(W) | unsigned_pos(H)
            for a, tv in oc:
                if tv and not (a & (unsigned_zero(W) | unsigned_zero(H))):
                    bad.append("true is returned without width == 0 or height == 0")
                if not tv and not (a & unsigned_pos(W) and a & unsigned_pos(H)):
                    bad.append("false is returned although only %s is known to be non-zero" % ("the width" if a & unsigned_pos(W) else "the height" if a & unsigned_pos(H) else "nothing"))
                if a - allowed:
                    bad.append("depends on a further condition %s" % sorted(a - allowed)[0][1][:80])
        rep.check(not bad, "R16.7", "Rectangle::is_zero_sized", "is_zero_sized must be width == 0 || height == 0: %s" % "; ".join(sorted(set(bad))[:2]), at=f.span, fn=f.path)

    # ---- anchors and resizing ---------------------------------------------------------------------------------------
    def variant_fact(sm, param_idx):
        for fct in sm.facts:
            if fct[0] == "variant" and strip_refs(fct[1])[0] == "param" and strip_refs(fct[1])[1] == param_idx and len(fct[2]) == 1:
                return fct[2][0]
        return None

    mx = lambda t: call("max", C(1), t)
    for name, pos, ext, names in (("anchor_x", X, W, ("Left", "Center", "Right")), ("anchor_y", Y, H, ("Top", "Center", "Bottom"))):
        f, ss = summs(name)
        if ss is None:
            continue
        want = {names[0]: pos, names[1]: add(pos, div(sub(mx(ext), C(1)), C(2))), names[2]: add(pos, sub(mx(ext), C(1)))}
        bad, seen = [], set()
        for sm in ss:
            v = variant_fact(sm, 2)
            if v not in want:
                bad.append("a path is not selected by the anchor alone (%s)" % "; ".join(show_fact(x)[:50] for x in sm.facts[:2]))
                continue
            seen.add(v)
            if not same(sm.ret, want[v]):
                bad.append("%s gives %s, expected %s" % (v, show(canon(sm.ret), maxd=6), show(want[v], maxd=6)))
        rep.check(not bad and seen == set(want), "R16.7", "Rectangle::" + name,
                  "%s: first / middle / last %s of the rectangle (an empty extent counts as 1): %s" % (name, "column" if pos is X else "row", "; ".join(sorted(set(bad))[:2]) or "anchors seen: %s" % sorted(seen)), at=f.span, fn=f.path)

    # the public single-axis resizers, everything inlined (whether they go through `resize_*_mut` helpers writing a copy
    # or build the result by value): per anchor, the four components of the returned rectangle
    from mirq.origin import mk_field
    for name, pos, ext, opos, oext, names in (("resized_width", X, W, Y, H, ("Left", "Center", "Right")), ("resized_height", Y, H, X, W, ("Top", "Center", "Bottom"))):
        f, ss = summs(name)
        if ss is None:
            continue
        new = ("param", 2, f.body["locals"][2].get("name"))
        delta = sub(mx(ext), mx(new))
        want = {names[0]: pos, names[1]: add(pos, div(delta, C(2))), names[2]: add(pos, delta)}
        ax = 0 if pos is X else 1
        bad, seen = [], set()
        for sm in ss:
            v = variant_fact(sm, 3)
            if v not in want:
                bad.append("a path is not selected by the anchor alone")
                continue
            seen.add(v)
            r = strip_refs(sm.ret)
            tl, sz = mk_field(r, 0), mk_field(r, 1)
            got_pos, got_opos = mk_field(tl, ax), mk_field(tl, 1 - ax)
            got_ext, got_oext = mk_field(sz, ax), mk_field(sz, 1 - ax)
            if not same(got_ext, new):
                bad.append("%s: the extent must become the new value; found %s" % (v, show(canon(got_ext), maxd=4)))
            if not same(got_opos, opos) or not same(got_oext, oext):
                bad.append("%s changes the other axis: %s / %s" % (v, show(canon(got_opos), maxd=4), show(canon(got_oext), maxd=4)))
            if not same(got_pos, want[v]):
                bad.append("%s moves the position to %s, expected %s (the anchored edge stays where it is)" % (v, show(canon(got_pos), maxd=6), show(want[v], maxd=6)))
        rep.check(not bad and seen == set(want), "R16.7", "Rectangle::" + name,
                  "%s: %s" % (name, "; ".join(sorted(set(bad))[:2]) or "anchors seen: %s" % sorted(seen)), at=f.span, fn=f.path)

    # ---- ranges ----------------------------------------------------------------------------------------------------
    for name, pos, ext in (("rows", Y, H), ("columns", X, W)):
        f, ss = summs(name)
        if ss is None:
            continue
        ok = len(ss) == 1 and not facts_of(ss[0]) and ss[0].ret[0] == "agg" and len(ss[0].ret[2]) == 2
        if ok:
            a, b = ss[0].ret[2]
            ok = same(a, pos) and (same(b, call("sadd", pos, ext)) or same(b, add(pos, ext)))
        rep.check(ok, "R16.7", "Rectangle::" + name, "%s must be the half-open range from the first to one past the last %s: %s" % (name, "row" if pos is Y else "column", show(canon(ss[0].ret), maxd=5) if ss else ""), at=f.span, fn=f.path)

    # ---- centre <-> top-left: the same offset in both directions ----------------------------------------------------
    f1, s1 = summs("center")
    f2, s2 = summs("with_center")
    if s1 is not None and s2 is not None:
        bad = []
        if len(s1) != 1 or len(s2) != 1:
            bad.append("center / with_center branch (%d / %d paths)" % (len(s1), len(s2)))
        else:
            c, wc = s1[0].ret, s2[0].ret
            cen, size = ("param", 1, "center"), ("param", 2, "size")
            ccomps = c[2] if c[0] == "agg" and len(c[2]) == 2 else (c[3] if c[0] == "call" and len(c[3]) == 2 else None)
            if ccomps is None:
                bad.append("center() is not built per axis: %s" % show(c, maxd=4))
            elif not (wc[0] == "agg" and len(wc[2]) == 2 and wc[2][0][0] == "agg" and len(wc[2][0][2]) == 2):
                bad.append("with_center() is not Rectangle { top_left: (.., ..), size }: %s" % show(wc, maxd=4))
            else:
                if canon(wc[2][1]) != size:
                    bad.append("with_center must keep the given size")
                for i, (p_, e_) in enumerate(((X, W), (Y, H))):
                    off_c = nf(sub(ccomps[i], p_))                      # centre - top-left, a function of the extent
                    tl = wc[2][0][2][i]
                    off_w = nf(sub(("field", cen, i), tl))             # centre - top-left in with_center, over `size`
                    if off_c is None or off_w is None:
                        bad.append("offset not polynomial")
                        continue
                    # rename: self.size.k -> size.k
                    ren = repr(off_c).replace(repr(("field", ("field", ME, 1), i)), repr(("field", size, i)))
                    if ren != repr(off_w):
                        bad.append("axis %s: center() is top_left + %s but with_center() subtracts %s — with_center(center(), size) is not the identity" % ("xy"[i], off_c, off_w))
                    want_off = nf(div(call("ssub", e_, C(1)), C(2)))
                    if off_c != want_off and off_c != nf(div(sub(e_, C(1)), C(2))):
                        bad.append("axis %s: the centre must be (extent - 1) / 2 from the top-left corner (within one pixel of the middle); found %s" % ("xy"[i], off_c))
        rep.check(not bad, "R16.7", "Rectangle::center/with_center", "; ".join(sorted(set(bad))[:2]), at=f2.span, fn=f2.path)

    # ---- with_corners ------------------------------------------------------------------------------------------------
    f, ss = summs("with_corners")
    if ss is not None:
        c1, c2 = ("param", 1, "corner_1"), ("param", 2, "corner_2")
        bad = []
        for sm in ss:
            r = sm.ret
            if not (r[0] == "agg" and len(r[2]) == 2 and all(x[0] == "agg" and len(x[2]) == 2 for x in r[2])):
                bad.append("not a Rectangle { (..), (..) }: %s" % show(r, maxd=4))
                continue
            for i in (0, 1):
                a, b = ("field", c1, i), ("field", c2, i)
                if not same(r[2][0][2][i], call("min", *sorted((a, b), key=repr))):
                    bad.append("top_left.%s must be the smaller of the two corners' coordinates; found %s" % ("xy"[i], show(canon(r[2][0][2][i]), maxd=4)))
                got = nf(r[2][1][2][i])
                if got not in (nf(add(call("uabs", sub(a, b)), C(1))), nf(add(call("uabs", sub(b, a)), C(1))), nf(add(call("abs", sub(a, b)), C(1))), nf(add(call("abs", sub(b, a)), C(1)))):
                    bad.append("size.%s must be |difference| + 1 (both corners belong to the rectangle); found %s" % (("width", "height")[i], show(canon(r[2][1][2][i]), maxd=5)))
        rep.check(not bad and len(ss) >= 1, "R16.7", "Rectangle::with_corners", "; ".join(sorted(set(bad))[:2]), at=f.span, fn=f.path)
