"""C02 — bounding boxes contain everything that is drawn (structural part)."""
from mirq import ty_str
from mirq.origin import Origins, show, walk, decisions, lit_truth
from mirq.paths import show_fact
from mirq.origin import subst
from mirq.pat import match, find, strip_refs
from mirq.expand import Expander
from rules.c14 import font_table, font_fields, field_index, MONOFONT

STYLE = "embedded_graphics::mono_font::mono_text_style::MonoTextStyle"
TR = "embedded_graphics::text::renderer::TextRenderer"


def run(ctx, rep):
    prog = ctx.program("default")
    rep.configs.append(getattr(ctx, "alias", "default"))
    fonts = []
    for f, v in font_table(prog):
        try:
            fonts.append((f, font_fields(v)))
        except Exception:
            rep.fail("R02.2", f.path, "font constant could not be decoded", status="undecided", at=f.span, fn=f.path)
    rep.floor("R02", "MonoFont constants", len(fonts), 280)

    # ---- R02.1 measure_string height ----------------------------------------------------
    ms = prog.method1(STYLE, "measure_string", TR)
    fi = lambda n: field_index(prog, STYLE, n)
    ff = lambda n: field_index(prog, MONOFONT, n)
    font = ("field", ("param", 1, "self"), fi("font"))
    H = ("field", ("field", font, ff("character_size")), 1)
    UO = ("field", ("field", font, ff("underline")), 0)
    UH = ("field", ("field", font, ff("underline")), 1)
    SO = ("field", ("field", font, ff("strikethrough")), 0)
    U = {("bin", "Add", UO, UH), ("bin", "Add", UH, UO)}
    ucol = ("field", ("param", 1, "self"), fi("underline_color"))
    need_table = False
    # path summaries (helpers introduced by an edit and the colour's variant predicates inlined)
    from mirq.paths import Paths as _Paths, Unsupported as _Uns
    try:
        paths = _Paths(prog, inline=lambda g: prog.is_new(g) or ("::DecorationColor" in g.path and g.name in ("is_none", "is_text_color", "is_custom"))).of(ms)
    except _Uns as e:
        paths = []
    rep.check(1 <= len(paths) <= 8, "R02.1", "paths", "measure_string has %d paths" % len(paths), status="undecided", at=ms.span, fn=ms.path)
    _nd = lambda t: subst(t, lambda n: n[1] if n[0] in ("ref", "deref") else None)
    for sm_ in paths:
        r = _nd(sm_.ret)
        m = find(r, ("call", "*Rectangle::new", "_", ("_", ("call", "*Size::new", "_", ("?w", "?h")))))
        underlined = None
        vs = [set(f_[2]) for f_ in sm_.facts if f_[0] == "variant" and _nd(f_[1]) == ucol]
        if vs:
            u_ = set.intersection(*vs)
            underlined = False if u_ <= {"None"} else (True if "None" not in u_ else None)
        key = "height:" + {True: "underlined", False: "plain", None: "any"}[underlined]
        if not m:
            rep.fail("R02.1", key, "bounding box of measure_string is not Rectangle::new(_, Size::new(w, h)): %s" % show(r, maxd=5), status="undecided", at=ms.span, fn=ms.path)
            continue
        h = m[0][1]["?h"]
        is_h = h == H
        is_u = any(match(h, u) is not None for u in U)
        is_max = match(h, ("call", "*::max", "_", ("?a", "?b"))) is not None and {True} == {True} and \
            set([match(h, ("call", "*::max", "_", ("?a", "?b")))["?a"], match(h, ("call", "*::max", "_", ("?a", "?b")))["?b"]]) in [set([H, u]) for u in U]
        if underlined is False or underlined is None:
            ok = is_h or is_max
            rep.check(ok, "R02.1", key, "box height must cover the glyph cell (font.character_size.height); found %s" % show(h), at=ms.span, fn=ms.path, detail=show(h))
        else:
            if is_max:
                rep.ok("R02.1", key, detail="max(cell height, underline offset+height)", at=ms.span, fn=ms.path)
            elif is_u:
                need_table = True
                rep.ok("R02.1", key, detail="underline offset+height (needs the table obligation u >= h)", at=ms.span, fn=ms.path)
            elif is_h:
                rep.fail("R02.1", key, "underlined text uses the plain cell height: the underline below the cell is outside the box", at=ms.span, fn=ms.path)
            else:
                rep.fail("R02.1", key, "box height of underlined text not recognised: %s" % show(h), status="undecided", at=ms.span, fn=ms.path)
        rep.sample({"rule": "R02.1", "case": key, "height": show(h)})

    # ---- table obligations --------------------------------------------------------------------
    for f, d in sorted(fonts, key=lambda x: x[0].path):
        key = f.path.replace("embedded_graphics::mono_font::", "")
        ch = d["char"][1]
        if d["char"] == (0, 0):
            continue
        u = d["under"][0] + d["under"][1]
        st = d["strike"][0] + d["strike"][1]
        rep.check(st <= ch, "R02.2", key + ":strikethrough", "strikethrough rows [%d, %d) leave the glyph cell of height %d: drawn outside the text box" % (d["strike"][0], st, ch), at=f.span, fn=f.path)
        rep.check(d["baseline"] < ch, "R02.2", key + ":baseline", "baseline %d not inside the cell height %d" % (d["baseline"], ch), at=f.span, fn=f.path)
        if need_table:
            rep.check(u >= ch, "R02.1", key + ":underline-covers-cell",
                      "underlined text box height is underline.offset+height = %d but the glyph cell is %d rows high: rows %d..%d (background / descenders) are drawn outside bounding_box()" % (u, ch, u, ch - 1),
                      at=f.span, fn=f.path)

    check_styled_boxes(prog, rep)
    check_text_union(prog, rep)
    check_thick_segment(prog, rep)
    triangle_collapse(prog, rep)
    underline_in_box(prog, rep)
    line_box(prog, rep)
    try:
        polyline_transparent(prog, rep)
    except Exception as e:
        import traceback; traceback.print_exc()
        rep.fail("R02.10", "engine", "transparent polyline analysis crashed: %r" % (e,), status="undecided")
    try:
        triangle_box_inputs(prog, rep)
    except Exception as e:
        import traceback; traceback.print_exc()
        rep.fail("R02.12", "engine", "triangle box analysis crashed: %r" % (e,), status="undecided")
    try:
        collapsed_case(prog, rep)
    except Exception as e:
        import traceback; traceback.print_exc()
        rep.fail("R02.11", "engine", "collapsed-case analysis crashed: %r" % (e,), status="undecided")
    from rules import axis
    axis.run_for(ctx.program("default"), rep, 'R02.6', ['src/primitives/rectangle/styled.rs', 'src/primitives/triangle/styled.rs', 'src/primitives/polyline/styled.rs', 'src/primitives/line/styled.rs', 'src/text', 'src/mono_font', 'src/image'], 'bounding boxes and drawn rectangles are built per axis')

def collapsed_case(prog, rep):
    """R02.11 the collapsed-triangle special case depends on the geometry alone.  `ScanlineIntersections::new` stores
    is_collapsed = triangle.is_collapsed(stroke_width, stroke_offset) && stroke_offset == Right: an inside stroke that
    fills the whole triangle is then rendered as the triangle itself, which is what keeps it inside the styled bounding
    box (only rows are clipped to the box).  On every path the stored flag must be decided by these two conditions:
    a path that stores `false` has refuted one of them, a path that stores `true` has established both — a further
    condition (no fill colour: "the special case only matters for fills") lets thick inside strokes leave the box."""
    from mirq.paths import Paths, Unsupported, show_fact
    from mirq.origin import mk_field
    SI = "embedded_graphics::primitives::triangle::scanline_intersections::ScanlineIntersections"
    try:
        f = prog.method1(SI, "new", None)
        fidx = {x["name"]: i for i, x in enumerate(prog.adts[SI]["variants"][0]["fields"])}
        ci = fidx["is_collapsed"]
    except Exception as e:
        rep.fail("R02.11", "triangle:collapsed-case", "anchor lost: %s" % e, status="undecided")
        return
    try:
        summs = Paths(prog, inline=lambda g: prog.is_new(g)).of(f)
    except Unsupported as e:
        rep.fail("R02.11", "triangle:collapsed-case", "cannot summarise: %s" % e, status="undecided", at=f.span, fn=f.path)
        return
    is_A = lambda t: t[0] == "call" and t[1].split("::")[-1] == "is_collapsed" and "Triangle" in t[1]
    def is_B(t):
        # stroke_offset == Right as a value
        t = strip_refs(t)
        if t[0] == "bin" and t[1] == "Eq":
            return any(x[0] == "agg" and str(x[1]).endswith("StrokeOffset::Right") for x in t[2:4])
        if t[0] == "call" and t[1].split("::")[-1] == "eq" and len(t[3]) == 2:
            return any(strip_refs(x)[0] == "agg" and str(strip_refs(x)[1]).endswith("StrokeOffset::Right") for x in t[3])
        return False
    bad, und, n = [], [], 0
    for sm in summs:
        r = strip_refs(sm.ret)
        while r[0] == "mut":
            r = strip_refs(r[1])
        if r[0] != "agg" or not str(r[1]).endswith("ScanlineIntersections"):
            und.append("new() returns %s" % show(r, maxd=2)[:100])
            continue
        n += 1
        c = strip_refs(r[2][ci])
        A_true = any(fc[0] == "true" and is_A(strip_refs(fc[1])) for fc in sm.facts)
        A_false = any(fc[0] == "false" and is_A(strip_refs(fc[1])) for fc in sm.facts)
        B_true = any((fc[0] == "true" and is_B(fc[1])) or (fc[0] == "variant" and fc[2] == ("Right",)) or (fc[0] == "eq" and any(strip_refs(x)[0] == "agg" and str(strip_refs(x)[1]).endswith("StrokeOffset::Right") for x in fc[1:3])) for fc in sm.facts)
        B_false = any((fc[0] == "false" and is_B(fc[1])) or (fc[0] == "variant" and "Right" not in fc[2] and any(v_ in ("Left", "None") for v_ in fc[2])) or (fc[0] == "ne" and any(strip_refs(x)[0] == "agg" and str(strip_refs(x)[1]).endswith("StrokeOffset::Right") for x in fc[1:3])) for fc in sm.facts)
        if c == ("const", False):
            if not (A_false or B_false):
                bad.append("a path stores is_collapsed = false without having refuted `triangle.is_collapsed(..)` or `stroke_offset == Right` (conditions on it: %s)" % ("; ".join(show_fact(x)[:70] for x in sm.facts) or "none"))
        elif c == ("const", True):
            if not (A_true and B_true):
                bad.append("a path stores is_collapsed = true without both conditions established")
        elif is_B(c):
            if not A_true:
                bad.append("a path stores `stroke_offset == Right` as is_collapsed without triangle.is_collapsed(..) established")
        elif is_A(c):
            if not B_true:
                bad.append("a path stores triangle.is_collapsed(..) as is_collapsed without `stroke_offset == Right` established")
        else:
            und.append("is_collapsed is %s" % show(c, maxd=3)[:120])
    if bad:
        rep.fail("R02.11", "triangle:collapsed-case", "; ".join(sorted(set(bad))[:2]), at=f.span, fn=f.path)
    elif und or n < 2:
        rep.fail("R02.11", "triangle:collapsed-case", "; ".join(sorted(set(und))[:2]) or "expected at least two paths (%d)" % n, status="undecided", at=f.span, fn=f.path)
    else:
        rep.ok("R02.11", "triangle:collapsed-case", at=f.span, fn=f.path, detail={"paths": n})


def triangle_box_inputs(prog, rep):
    """R02.12 the thick-stroke box of a triangle is computed from the inputs the renderer works on: every
    `ClosedThickSegmentIter::new` in `Triangle::styled_bounding_box` gets the vertices of `self.sorted_clockwise()` (the
    renderer normalises the winding, R19.6: joins and stroke sides depend on it — also for centred strokes), the style's
    stroke width and `StrokeOffset::from(style.stroke_alignment)`."""
    TRI = "embedded_graphics::primitives::triangle::Triangle"
    fs = [f for f in prog.fns.values() if f.name == "styled_bounding_box" and f.impl and str(prog.impls[f.impl]["self_ty"].get("adt", "")) == TRI]
    if len(fs) != 1:
        rep.fail("R02.12", "triangle:box-inputs", "anchor lost (%d)" % len(fs), status="undecided")
        return
    f = fs[0]
    vi = field_index(prog, TRI, "vertices")
    fam = [f] + list(prog.new_helpers_of(f))
    n, bad = 0, []
    for g in fam:
        if not g.body:
            continue
        o = Origins(g)
        for bi in sorted(o.cfg.live_blocks()):
            t = g.body["blocks"][bi]["t"]
            if not (t and t["k"] == "call" and t["f"].get("name") == "new" and "ClosedThickSegmentIter" in ((t["f"].get("resolved") or t["f"]).get("path", "") or "")):
                continue
            n += 1
            a = [strip_refs(x) for x in o.term_args(bi)]
            if g is not f:
                continue            # a helper gets its inputs from the caller; the direct site is checked
            raw = [n_ for n_ in walk(a[0]) if n_[0] == "field" and n_[2] == vi and strip_refs(n_[1]) == ("param", 1, "self")]
            srt = [n_ for n_ in walk(a[0]) if n_[0] == "field" and n_[2] == vi and strip_refs(n_[1])[0] == "call" and strip_refs(n_[1])[1].endswith("::sorted_clockwise")]
            if raw or not srt:
                bad.append("the segments are built from %s: on some path not from self.sorted_clockwise()" % show(a[0], maxd=4)[:140])
            style = ("param", 2, "style")
            ps = "embedded_graphics::primitives::primitive_style::PrimitiveStyle"
            if len(a) >= 3:
                if strip_refs(a[1]) != ("field", style, field_index(prog, ps, "stroke_width")):
                    bad.append("the stroke width is %s" % show(a[1], maxd=3))
                off = strip_refs(a[2])
                if not (off[0] == "call" and off[1].split("::")[-1] in ("from", "into") and len(off[3]) == 1 and strip_refs(off[3][0]) == ("field", style, field_index(prog, ps, "stroke_alignment"))):
                    bad.append("the stroke offset is %s" % show(off, maxd=3))
    rep.check(not bad and n >= 1, "R02.12", "triangle:box-inputs", "Triangle::styled_bounding_box must build its thick segments from sorted_clockwise() vertices, style.stroke_width and StrokeOffset::from(style.stroke_alignment): %s" % ("; ".join(bad[:2]) or "no ClosedThickSegmentIter::new found"),
              at=f.span, fn=f.path, status="refuted" if bad else "undecided")


def check_styled_boxes(prog, rep):
    """R02.3: the six closed shapes grow their box by exactly what stroke_area grows."""
    want = ("call", "*::offset", "_", (("call", "*::bounding_box", "_", (("param", 1, "self"),)),
                                       ("call", "*SaturatingAs>::saturating_as", "_", (("call", "*PrimitiveStyle::<C>::outside_stroke_width", "_", (("param", 2, "style"),)),))))
    n = 0
    for shape in ("rectangle::Rectangle", "circle::Circle", "ellipse::Ellipse", "rounded_rectangle::RoundedRectangle", "arc::Arc", "sector::Sector"):
        fs = [f for f in prog.fns.values() if f.name == "styled_bounding_box" and f.kind == "assoc_fn" and f.impl and str(prog.impls[f.impl]["self_ty"].get("adt", "")).endswith("::" + shape)
              and "PrimitiveStyle" in ty_str(prog.impls[f.impl].get("trait_args", ["", ""])[1] if len(prog.impls[f.impl].get("trait_args", [])) > 1 else "")]
        if len(fs) != 1:
            rep.fail("R02.3", shape, "styled_bounding_box anchor lost (%d)" % len(fs), status="undecided")
            continue
        f = fs[0]
        ro = strip_refs(Origins(f).return_origin())
        ok = match(ro, want) is not None
        rep.check(ok, "R02.3", shape, "styled bounding box must be bounding_box().offset(style.outside_stroke_width().saturating_as()) — the same growth as PrimitiveStyle::stroke_area; found %s" % show(ro),
                  at=f.span, fn=f.path, detail=show(ro))
        n += ok
    # stroke_area itself
    sa = prog.fn_by_path("embedded_graphics::primitives::primitive_style::PrimitiveStyle::<C>::stroke_area")
    ro = strip_refs(Origins(sa).return_origin())
    ok = match(ro, ("call", "*OffsetOutline::offset", "_", (("param", 2, "primitive"), ("call", "*SaturatingAs>::saturating_as", "_", (("call", "*outside_stroke_width", "_", (("param", 1, "self"),)),))))) is not None
    rep.check(ok, "R02.3", "stroke_area", "PrimitiveStyle::stroke_area must offset the primitive by outside_stroke_width().saturating_as(); found %s" % show(ro), at=sa.span, fn=sa.path)


def check_text_union(prog, rep):
    """R02.4 update_min_max pairs min with top_left/min and max with bottom_right/max on both axes;
    bounding_box feeds the same (line, position) pairs to measure_string that draw feeds to draw_string."""
    TEXT = "embedded_graphics::text::text::Text"
    bb = prog.method1(TEXT, "bounding_box", "embedded_graphics_core::geometry::Dimensions")
    _text_fold(prog, rep, bb)
    TEXT = "embedded_graphics::text::text::Text"
    bb = prog.method1(TEXT, "bounding_box", "embedded_graphics_core::geometry::Dimensions")
    dr = prog.method1(TEXT, "draw", "embedded_graphics_core::drawable::Drawable")

    def line_pos_source(f, name):
        """Where do the (text, position, baseline) arguments of the `name` call in f's family come from?
        -> 'lines-item' when text/position are the two components of an item of self.lines() (loop variable or
        closure parameter of a combinator applied to self.lines()), plus the baseline argument."""
        fam = [f]
        i = 0
        while i < len(fam):
            fam.extend(prog.closures_of.get(fam[i].id, []))
            i += 1
        for g in fam:
            o = Origins(g)
            for bi in sorted(o.cfg.live_blocks()):
                t = g.body["blocks"][bi]["t"]
                if not (t and t["k"] == "call" and t["f"].get("name") == name):
                    continue
                a = [strip_refs(x) for x in o.term_args(bi)]
                text, pos, base = a[1], a[2], a[3]
                item = None
                m0 = match(text, ("field", "?it", 0))
                m1 = match(pos, ("field", "?it", 1))
                if m0 is not None and m1 is not None and m0["?it"] == m1["?it"]:
                    item = m0["?it"]
                if item is None:
                    return ("other", show(text, maxd=4), show(pos, maxd=4))
                # loop variable: payload of next() on an iterator derived from self.lines()
                mm = match(item, ("field", ("variant", ("call", "*::next", "_", ("?src",)), "Some"), 0))
                if mm is not None and any(n[0] == "call" and n[1].endswith("::lines") for n in walk(mm["?src"])):
                    return ("lines-item", _baseline_norm(base))
                # closure parameter of a combinator over self.lines()
                if g.kind == "closure" and item[0] == "param" and item[1] >= 2:   # for_each: |item|, try_fold: |acc, item|
                    parent = prog.fns.get(g.parent_fn)
                    if parent is not None:
                        po = Origins(parent)
                        for bj in sorted(po.cfg.live_blocks()):
                            pt = parent.body["blocks"][bj]["t"]
                            if pt and pt["k"] == "call" and pt["f"].get("name") in ("map", "for_each", "try_for_each", "try_fold", "fold", "filter_map", "flat_map", "scan"):
                                pa = po.term_args(bj)
                                clo = [n for x in pa for n in walk(x) if n[0] == "agg" and n[1] == "closure:" + g.id]
                                if clo and any(n[0] == "call" and n[1].endswith("::lines") for n in walk(pa[0])):
                                    caps = clo[0][2]
                                    from mirq.origin import subst
                                    base = subst(base, lambda n: strip_refs(caps[n[1]]) if n[0] == "upvar" and n[1] < len(caps) and caps[n[1]][0] != "param" else None)
                                    return ("lines-item", _baseline_norm(base))
                return ("other", show(item, maxd=4))
        return None
    a1 = line_pos_source(bb, "measure_string")
    a2 = line_pos_source(dr, "draw_string")
    ok = a1 is not None and a2 is not None and a1[0] == "lines-item" and a1 == a2
    rep.check(ok, "R02.4", "same-lines", "Text::bounding_box must measure the (line, position, baseline) triples of self.lines() that Text::draw draws; measure: %s draw: %s" % (a1, a2), at=bb.span, fn=bb.path,
              status="undecided" if (a1 is None or a2 is None) else "refuted")
    ro = strip_refs(Origins(bb).return_origin())
    ok = bool(find(ro, ("call", "*Rectangle::with_corners", "_", ("?a", "?b"))))
    if not ok:
        # the call may sit in a closure handed to map_or_else / map: look at the closures of bounding_box as well
        fam = [bb]
        i = 0
        while i < len(fam):
            fam.extend(prog.closures_of.get(fam[i].id, []))
            i += 1
        for g in fam[1:]:
            r = strip_refs(Origins(g).return_origin())
            ok = ok or bool(find(r, ("call", "*Rectangle::with_corners", "_", ("?a", "?b"))))
    rep.check(ok, "R02.4", "with_corners", "Text::bounding_box must return with_corners(min, max)", at=bb.span, fn=bb.path)


def _text_fold(prog, rep, bb):
    """The accumulation of the text box, wherever it is written (update_min_max, a fold closure, bounding_box itself):
    in the path summaries of bounding_box, of the crate-local functions of src/text/text.rs it uses and of helpers new to
    the tree, every min / component_min combines the accumulator with the *top_left* of the measured box and every max /
    component_max with its *bottom_right*, component by component on the same axis, both axes occur for both, and the
    accumulator starts as (top_left, bottom_right)."""
    from mirq.paths import Paths, Unsupported
    TM = "embedded_graphics::text::renderer::TextMetrics"
    cands = [a for a in prog.adts if a.endswith("::TextMetrics")]
    bbi = None
    for a in cands:
        for i, fd in enumerate(prog.adts[a]["variants"][0]["fields"]):
            if fd["name"] == "bounding_box":
                bbi = i
    if bbi is None:
        rep.fail("R02.4", "update_min_max", "TextMetrics::bounding_box not found", status="undecided")
        return
    roots = [bb] + list(prog.closures_of.get(bb.id, []))
    seen = {f.id for f in roots}
    i = 0
    while i < len(roots):
        f = roots[i]
        i += 1
        for cid in prog.callees_of(f) if hasattr(prog, "callees_of") else []:
            pass
        for g in prog.fns.values():
            if g.id in seen or not g.body or g.kind not in ("fn", "assoc_fn", "closure") or "::tests" in g.id:
                continue
            if f.root_fn().id in prog.uses_of(g) and ((g.span or "").startswith("src/text/text.rs") or prog.is_new(g)) and g.name not in ("lines", "measure_string", "draw_string"):
                seen.add(g.id)
                roots.append(g)
                for c in prog.closures_of.get(g.id, []):
                    if c.id not in seen:
                        seen.add(c.id)
                        roots.append(c)

    cur = [None]
    # closures handed to `reduce`: |acc, item| — the item is what the upstream closure yields per line, a
    # (top_left, bottom_right) pair when that closure builds one (checked through `inits` below); the accumulator is not
    reduce_closures = set()
    for f_ in roots:
        if not f_.body:
            continue
        for b_ in f_.body["blocks"]:
            t_ = b_["t"]
            if t_ and t_["k"] == "call" and t_["f"].get("name") == "reduce":
                for s2 in f_.body["blocks"]:
                    for st_ in s2["s"]:
                        if st_["k"] == "assign" and st_["rv"].get("k") == "agg" and st_["rv"].get("agg") == "closure" and st_["rv"].get("closure"):
                            g_ = prog.fns.get(st_["rv"]["closure"])
                            if g_ is not None and g_.body["argc"] == 3:
                                reduce_closures.add(g_.id)

    def is_metrics(x):
        """is tree x a TextMetrics value (a parameter / capture of that type, or the result of measure_string)?"""
        x = strip_refs(x)
        f = cur[0]
        ty = None
        if x[0] == "param" and f is not None and x[1] < len(f.body["locals"]):
            ty = f.body["locals"][x[1]]["ty"]
        elif x[0] == "upvar" and f is not None and x[1] < len(f.body.get("upvars", [])):
            ty = f.body["upvars"][x[1]].get("ty")
        elif x[0] == "call":
            return x[1].split("::")[-1] == "measure_string"
        while isinstance(ty, dict) and "ref" in ty:
            ty = ty["ref"]
        return isinstance(ty, dict) and str(ty.get("adt", "")).endswith("::TextMetrics")

    def is_tl(t):
        t = strip_refs(t)
        return t[0] == "field" and t[2] == 0 and strip_refs(t[1])[0] == "field" and strip_refs(t[1])[2] == bbi and is_metrics(strip_refs(t[1])[1])

    def is_br(t):
        t = strip_refs(t)
        return t[0] == "payload" and strip_refs(t[1])[0] == "call" and strip_refs(t[1])[1].endswith("Rectangle::bottom_right")

    def source(t):
        """('tl'|'br', axis|None) if t is (a component of) the measured box's corner"""
        t = strip_refs(t)
        while t[0] == "cast" or (t[0] == "call" and t[1].split("::")[-1] in ("clone", "into", "from") and len(t[3]) == 1):
            t = strip_refs(t[1] if t[0] == "cast" else t[3][0])
        if is_tl(t):
            return "tl", None
        if is_br(t):
            return "br", None
        if cur[0] is not None and cur[0].id in reduce_closures and t[0] == "field" and strip_refs(t[1])[0] == "param" and strip_refs(t[1])[1] == 3 and t[2] in (0, 1):
            return ("tl", "br")[t[2]], None
        if t[0] == "field" and isinstance(t[2], int):
            if is_tl(t[1]):
                return "tl", t[2]
            if is_br(t[1]):
                return "br", t[2]
        return None

    def acc_axis(t):
        t = strip_refs(t)
        return t[2] if t[0] == "field" and isinstance(t[2], int) else None
    found, bad, inits, und = set(), [], [], []
    for f in roots:
        summs = None
        for mode in ("refuse", "once"):
            try:
                summs = Paths(prog, inline=lambda g: prog.is_new(g), loops=mode, local_effects=True, havoc=True).of(f)
                break
            except Unsupported:
                continue
        if summs is None:
            und.append(f.path)
            continue
        cur[0] = f
        for sm in summs:
            trees = [sm.ret] + [e[1] if e[0] == "call" else e[2] for e in sm.effects]
            for tr in trees:
                if not isinstance(tr, tuple):
                    continue
                for n in walk(tr):
                    if not isinstance(n, tuple):
                        continue
                    if n[0] == "call" and n[1].split("::")[-1] in ("min", "max", "component_min", "component_max") and len(n[3]) == 2:
                        op = "min" if n[1].split("::")[-1].endswith("min") else "max"
                        sa, sb = source(n[3][0]), source(n[3][1])
                        if sa is None and sb is None:
                            continue
                        if sa is not None and sb is not None:
                            bad.append("%s of two corners of the measured box (%s)" % (op, show(n, maxd=4)))
                            continue
                        (kind, axis), acc = (sa, n[3][1]) if sa is not None else (sb, n[3][0])
                        if (op, kind) not in (("min", "tl"), ("max", "br")):
                            bad.append("%s is taken over the %s corner (%s)" % (op, "top-left" if kind == "tl" else "bottom-right", show(n, maxd=4)))
                            continue
                        aa = acc_axis(acc)
                        if axis is not None and aa is not None and aa != axis:
                            bad.append("%s combines component %s of the accumulator with component %s of the box (%s)" % (op, aa, axis, show(n, maxd=4)))
                            continue
                        for ax in ((0, 1) if axis is None else (axis,)):
                            found.add((op, ax))
                    if n[0] == "agg" and n[1] == "tuple" and len(n[2]) == 2:
                        sa, sb = source(n[2][0]), source(n[2][1])
                        if sa is not None and sb is not None and sa[1] is None and sb[1] is None:
                            inits.append((sa[0], sb[0]))
    want = {("min", 0), ("min", 1), ("max", 0), ("max", 1)}
    if set(inits) - {("tl", "br")}:
        bad.append("the accumulator starts as %s" % sorted(set(inits) - {("tl", "br")}))
    if und and not bad and found != want:
        rep.fail("R02.4", "update_min_max", "cannot summarise %s" % ", ".join(und[:2]), status="undecided", at=bb.span, fn=bb.path)
        return
    rep.check(not bad and found == want and ("tl", "br") in inits, "R02.4", "update_min_max",
              "the text box must accumulate min over top_left and max over bottom_right of every measured line on both axes, starting from (top_left, bottom_right): %s"
              % ("; ".join(sorted(set(bad))[:2]) or "found %s, start %s" % (sorted(found), sorted(set(inits)))), at=bb.span, fn=bb.path,
              detail={"functions": [f.path for f in roots], "found": sorted(found)})


def _baseline_norm(t):
    """self.text_style.baseline, whether read through self, an upvar copy of self or a captured field"""
    import re
    return re.sub(r"\^self(__\w+)?|\*|self", "S", show(strip_refs(t), maxd=6))


def _same_line_pos(a, b):
    """Both triples are (item.0, item.1, self.text_style.baseline) where item is the payload of
    `next()` on an iterator obtained from self.lines()."""
    def shape(t3):
        out = []
        for k, t in enumerate(t3[:2]):
            m = match(t, ("field", ("field", ("variant", ("call", "*::next", "_", ("?it",)), "Some"), 0), k))
            if m is None:
                return None
            if not any(n[0] == "call" and n[1].endswith("::lines") and n[3] == (("param", 1, "self"),) for n in walk(m["?it"])):
                return None
            out.append(k)
        out.append(t3[2])
        return out
    sa, sb = shape(a), shape(b)
    return sa is not None and sa == sb


def check_thick_segment(prog, rep):
    """R02.5: ThickSegment::edges_bounding_box spans exactly the end points of the two edge lines that
    `intersection` rasterises (the lines returned by edges())."""
    TS = "embedded_graphics::primitives::common::thick_segment::ThickSegment"
    ebb = prog.method1(TS, "edges_bounding_box", None)
    edges = prog.method1(TS, "edges", None)
    ex = Expander(prog)
    er = strip_refs(ex.ret(edges))
    pts = set()
    for n, m in find(er, ("call", "*Line::new", "_", ("?a", "?b"))):
        pts.add(m["?a"])
        pts.add(m["?b"])
    rep.check(len(pts) == 4, "R02.5", "edges", "ThickSegment::edges must return two lines over four join corners; found %d points" % len(pts), status="undecided", at=edges.span, fn=edges.path)
    # which corners: a segment runs from where the second edge of its start join starts to where the first edge of its
    # end join ends, and each edge line stays on its own side (right with right, left with left)
    from rules.axis import Axis
    ax = Axis(prog, edges)

    def named(t):
        names = []
        while t[0] in ("field", "ref", "deref"):
            if t[0] == "field":
                bt = ax.type_of(t[1])
                a = prog.adts.get(bt["adt"]) if isinstance(bt, dict) and "adt" in bt else None
                if not a or t[2] >= len(a["variants"][0]["fields"]):
                    return None
                names.append(a["variants"][0]["fields"][t[2]]["name"])
            t = t[1]
        return ".".join(reversed(names)) if t[0] == "param" else None
    lines = [(named(m["?a"]), named(m["?b"])) for n, m in find(er, ("call", "*Line::new", "_", ("?a", "?b")))]
    bad = []
    want_ends = {"start_join.second_edge_start", "end_join.first_edge_end"}
    sides = set()
    for a, b in lines:
        if a is None or b is None:
            bad.append("an edge end point is not a corner of a join")
            continue
        (ea, sa), (eb, sb) = a.rsplit(".", 1), b.rsplit(".", 1)
        if sa != sb:
            bad.append("an edge line runs from a %s corner to a %s corner" % (sa, sb))
        if {ea, eb} != want_ends:
            bad.append("the %s edge runs between %s and %s; a segment runs between start_join.second_edge_start and end_join.first_edge_end" % (sa, ea, eb))
        sides.add(sa)
    rep.check(not bad and sides == {"left", "right"} and len(lines) == 2, "R02.5", "edges:corners", "ThickSegment::edges: %s" % ("; ".join(sorted(set(bad))[:2]) or "edges found for sides %s" % sorted(sides)), at=edges.span, fn=edges.path)
    ok_all = True
    seen_box = 0
    for lits, ret, path in decisions(ebb):
        r = strip_refs(ex.inline(ret, only=lambda p: p.endswith("ThickSegment::edges")))
        m = match(r, ("call", "*Rectangle::with_corners", "_", ("?mn", "?mx")))
        if m is None:
            # skeleton path: bounding box of one edge line (both edges coincide)
            continue
        seen_box += 1

        def leaves(t, op):
            mm = match(t, ("call", "*Point::component_" + op, "_", ("?a", "?b")))
            if mm is None:
                return {strip_line_fields(t)}
            return leaves(mm["?a"], op) | leaves(mm["?b"], op)

        def strip_line_fields(t):
            # field(Line::new(a, b), 0|1) -> a|b
            mm = match(t, ("field", ("call", "*Line::new", "_", ("?a", "?b")), "?i"))
            if mm is not None:
                return mm["?a"] if mm["?i"] == 0 else mm["?b"]
            return t
        mn, mx = leaves(m["?mn"], "min"), leaves(m["?mx"], "max")
        ok = mn == pts and mx == pts
        ok_all = ok_all and ok
        if not ok:
            rep.fail("R02.5", "edges_bounding_box", "the box must take component_min and component_max over exactly the four end points of edges(): min over %s, max over %s, edge end points %s"
                     % (sorted(show(x) for x in mn), sorted(show(x) for x in mx), sorted(show(x) for x in pts)), at=ebb.span, fn=ebb.path)
    if ok_all and seen_box:
        rep.ok("R02.5", "edges_bounding_box", detail=sorted(show(x) for x in pts), at=ebb.span, fn=ebb.path)
        rep.sample({"rule": "R02.5", "corner_points": sorted(show(x) for x in pts)})
    elif not seen_box:
        rep.fail("R02.5", "edges_bounding_box", "no with_corners path found", status="undecided", at=ebb.span, fn=ebb.path)


def triangle_collapse(prog, rep):
    """R02.7 the thick-stroke triangle is treated as completely filled (its box is then the plain triangle's) as soon as
    ONE corner closes the hole: is_collapsed is an existential test over the joins of all three corners, each corner
    tested against the edge opposite to it.  (Path summaries with the search walked once: for / any / position alike.)"""
    from mirq.paths import Paths, Unsupported, CONTINUES, is_continues
    TRI = "embedded_graphics::primitives::triangle::Triangle"
    ic = prog.method1(TRI, "is_collapsed", None)
    jns = [f for f in prog.fns.values() if f.body and f.name == "joins" and f.impl and prog.impls[f.impl]["self_ty"].get("adt") == TRI]
    jn = jns[0] if len(jns) == 1 else None      # the helper may have been inlined into is_collapsed
    vi = field_index(prog, TRI, "vertices")
    me = ("param", 1, "self")
    V = lambda k: ("index", ("field", me, vi), ("const", k))
    # joins: the three cyclic corner triples
    want = {(2, 0, 1), (0, 1, 2), (1, 2, 0)}
    got = set()

    def corner_triples(tree):
        for n in walk(tree):
            if n[0] == "call" and n[1].endswith("LineJoin::from_points") and len(n[3]) == 5:
                ks = tuple(next((k for k in range(3) if strip_refs(a) == V(k)), None) for a in n[3][:3])
                got.add(ks)
                if tuple(strip_refs(x) for x in n[3][3:]) != (("param", 2, "stroke_width"), ("param", 3, "stroke_offset")):
                    got.add(("other-width",))
    try:
        if jn is not None:
            for sm in Paths(prog).of(jn):
                corner_triples(sm.ret)
        else:
            for sm in Paths(prog, loops="once").of(ic):
                for fct in sm.facts:
                    for x in fct[1:]:
                        if isinstance(x, tuple):
                            corner_triples(x)
    except Unsupported:
        pass
    rep.check(got == want, "R02.7", "triangle:joins", "the joins of a triangle must be built for every corner from its cyclic neighbours (p3,p1,p2), (p1,p2,p3), (p2,p3,p1) with the given stroke; found %s" % sorted(got, key=str), at=(jn or ic).span, fn=(jn or ic).path)
    bad = []
    seen = set()
    try:
        summs = Paths(prog, loops="once").of(ic)
    except Unsupported as e:
        summs = []
        bad.append("cannot summarise is_collapsed: %s" % e)
    joins_call = ("call", "*Triangle::joins", "_", (me, ("param", 2, "stroke_width"), ("param", 3, "stroke_offset")))
    for sm in summs:
        nxt = [fct for fct in sm.facts if fct[0] == "variant" and fct[1][0] == "call" and fct[1][1].split("::")[-1] == "next"]
        walks_joins = len(nxt) == 1 and (any(match(n, joins_call) is not None for n in walk(nxt[0][1])) or
                                         (jn is None and len([n for n in walk(nxt[0][1]) if n[0] == "call" and n[1].endswith("LineJoin::from_points")]) == 3))
        if not walks_joins:
            bad.append("a path does not walk the joins of all corners (self.joins(stroke_width, stroke_offset))")
            continue
        rest = [fct for fct in sm.facts if fct is not nxt[0]]
        if nxt[0][2] == ("None",):
            seen.add("none")
            if sm.ret != ("const", False) or rest:
                bad.append("with no corner closing the hole the triangle must not count as collapsed (returns %s)" % show(sm.ret, maxd=3))
            continue
        item = ("payload", nxt[0][1])
        deg = [fct for fct in rest if fct[0] in ("true", "false") and fct[1][0] == "call" and fct[1][1].endswith("is_degenerate")]
        side = [fct for fct in rest if fct[0] in ("true", "false") and fct[1][0] == "call" and fct[1][1].endswith("check_side")]
        if len(deg) + len(side) != len(rest) or len(deg) != 1:
            bad.append("a corner is judged by %s" % "; ".join(show_fact(x) for x in rest))
            continue
        closes = deg[0][0] == "true" or (side and side[0][0] == "true")
        if closes:
            seen.add("closes")
            if sm.ret != ("const", True):
                bad.append("a corner that closes the hole must make the triangle collapsed at once (returns %s)" % show(sm.ret, maxd=3))
        else:
            seen.add("open")
            if not is_continues(sm.ret) and sm.ret is not None:
                bad.append("a corner that leaves the hole open must not decide the result (returns %s)" % show(sm.ret, maxd=3))
        for fct in side:
            # the opposite edge of corner i: vertices (i+1)%3 .. (i+2)%3
            ln = [n for n in walk(fct[1]) if n[0] == "call" and n[1].endswith("Line::new")]
            i = ("field", item, 0)
            opp = lambda k: ("index", ("field", me, vi), ("bin", "Rem", ("bin", "Add", ("const", k), i), ("const", 3)))
            from mirq.origin import mk_bin
            def is_opp(t, k):
                # vertices[(i + k) % 3], the sum in any spelling ((i + 1) + 1, 2 + i ..): compared as a polynomial in i
                if not (t[0] == "index" and t[1] == ("field", me, vi) and t[2][0] == "bin" and t[2][1] == "Rem" and strip_refs(t[2][3]) == ("const", 3)):
                    return False
                from mirq.poly import Poly, tree_to_poly, NotPolynomial
                from rules.c10 import fold
                try:
                    return tree_to_poly(fold(t[2][2]), lambda n_: "i" if n_ == i else None) == Poly.sym("i") + Poly.const(k)
                except NotPolynomial:
                    return False
            if len(ln) != 1 or not (is_opp(ln[0][3][0], 1) and is_opp(ln[0][3][1], 2)):
                bad.append("corner i must be tested against its opposite edge vertices[(i+1)%%3]..vertices[(i+2)%%3]; found %s" % (show(ln[0], maxd=5) if ln else None))
    rep.check(not bad and seen == {"none", "closes", "open"}, "R02.7", "triangle:is_collapsed",
              "the hole test must be existential over the three corners (collapsed iff some corner is degenerate or reaches across its opposite edge): %s" % ("; ".join(sorted(set(bad))[:2]) or "cases seen %s" % sorted(seen)), at=ic.span, fn=ic.path)


def underline_in_box(prog, rep):
    """R02.8 the measured text box covers the underline whenever an underline can be drawn.  draw_decorations paints
    the underline rectangle iff underline_color.effective_color(text_color) is Some: Custom(c) always, TextColor iff a
    text colour is set.  So a path of measure_string whose box height leaves the underline out (no
    underline.offset + underline.height in it) must have established `underline_color is None`, or
    `underline_color is TextColor` together with `text_color is None`."""
    from mirq.paths import Paths, Unsupported
    STYLE = "embedded_graphics::mono_font::mono_text_style::MonoTextStyle"
    ms = prog.method1(STYLE, "measure_string", "embedded_graphics::text::renderer::TextRenderer")
    sf = {f["name"]: i for i, f in enumerate(prog.adts[STYLE]["variants"][0]["fields"])}
    ff = {f["name"]: i for i, f in enumerate(prog.adts[MONOFONT]["variants"][0]["fields"])}
    me = ("param", 1, "self")
    ul = ("field", ("field", me, sf["font"]), ff["underline"])
    try:
        summs = Paths(prog, inline=lambda g: prog.is_new(g) or ("::DecorationColor" in g.path and g.name in ("is_none", "is_text_color", "is_custom"))).of(ms)   # is_none() & co. are variant tests
    except Unsupported as e:
        rep.check(False, "R02.8", "measure_string:underline", "cannot summarise measure_string: %s" % e, status="undecided", at=ms.span, fn=ms.path)
        return
    bad, n_with, n_without = [], 0, 0
    for sm in summs:
        boxes = [m for n, m in find(sm.ret, ("call", "*Rectangle::new", "_", ("_", "?size")))] if sm.ret is not None else []
        if not boxes:
            bad.append("a path returns no Rectangle::new(.., ..) box")
            continue
        size = subst(boxes[0]["?size"], lambda n: n[1] if n[0] in ("ref", "deref") else None)   # `*self.font` destructured
        covers = any(n == ul or (n[0] == "field" and n[1] == ul) for n in walk(size))
        if covers:
            n_with += 1
            continue
        n_without += 1
        und = [set(f[2]) for f in sm.facts if f[0] == "variant" and strip_refs(f[1]) == ("field", me, sf["underline_color"])]
        txt = [set(f[2]) for f in sm.facts if f[0] == "variant" and strip_refs(f[1]) == ("field", me, sf["text_color"])]
        u = set.intersection(*und) if und else None
        t = set.intersection(*txt) if txt else None
        if u is not None and u <= {"None"}:
            continue
        if u is not None and u <= {"None", "TextColor"} and t is not None and t <= {"None"}:
            continue
        bad.append("the box leaves the underline out on a path where one can be drawn (underline_color %s, text_color %s)" % (sorted(u) if u else "any", sorted(t) if t else "any"))
    rep.check(not bad and n_with >= 1 and n_without >= 1, "R02.8", "measure_string:underline",
              "measure_string must include the underline rows whenever draw_decorations can draw an underline: %s" % ("; ".join(sorted(set(bad))[:2]) or "paths with/without underline rows: %d/%d" % (n_with, n_without)), at=ms.span, fn=ms.path)


def line_box(prog, rep):
    """R02.9 the styled box of a Line spans, on every path, exactly the four end points of the two outermost parallels
    `self.extents(style.stroke_width, StrokeOffset::None)` — the same walk (ParallelsIterator) the renderer strokes with.
    A box derived any other way (a closed formula for axis-parallel lines, say) cannot be related to the stroke by this
    analysis and is reported as undecided."""
    from mirq.paths import Paths, Unsupported
    cands = [f for f in prog.fns.values() if f.body and f.name == "styled_bounding_box" and "primitives::line::styled" in f.id]
    if len(cands) != 1:
        rep.check(False, "R02.9", "line:styled-box", "anchor lost (%d)" % len(cands), status="undecided")
        return
    f = cands[0]
    ps_w = field_index(prog, "embedded_graphics::primitives::primitive_style::PrimitiveStyle", "stroke_width")
    ext = ("call", "*Line::extents", "_", (("param", 1, "self"), ("field", ("param", 2, "style"), ps_w), ("agg", "*StrokeOffset::None", ())))
    bad = []
    try:
        summs = Paths(prog, inline=lambda g: prog.is_new(g)).of(f)
    except Unsupported as e:
        summs = []
        bad.append("cannot summarise: %s" % e)

    def leaves(t, op):
        t = strip_refs(t)
        mm = match(t, ("call", "*Point::component_" + op, "_", ("?a", "?b")))
        if mm is None:
            return [t]
        return leaves(mm["?a"], op) + leaves(mm["?b"], op)
    for sm in summs:
        m = match(strip_refs(sm.ret), ("call", "*Rectangle::with_corners", "_", ("?mn", "?mx"))) if sm.ret is not None else None
        if m is None:
            bad.append("a path returns %s" % show(sm.ret, maxd=3))
            continue
        for side, op in (("?mn", "min"), ("?mx", "max")):
            pts = set()
            for l_ in leaves(m[side], op):
                mm = match(l_, ("field", ("field", "?e", "?i"), "?j"))
                if mm is None or match(strip_refs(mm["?e"]), ext) is None or mm["?i"] not in (0, 1) or mm["?j"] not in (0, 1):
                    bad.append("the %s corner takes %s into account" % (op, show(l_, maxd=3)))
                else:
                    pts.add((mm["?i"], mm["?j"]))
            if pts != {(0, 0), (0, 1), (1, 0), (1, 1)} and not any("takes" in b for b in bad):
                bad.append("the %s corner covers only %d of the 4 end points of the outer parallels" % (op, len(pts)))
    rep.check(not bad and len(summs) >= 1, "R02.9", "line:styled-box", "Line::styled_bounding_box must be with_corners(min, max) over the four end points of extents(stroke_width, None): %s" % "; ".join(sorted(set(bad))[:2]),
              at=f.span, fn=f.path, status="refuted" if any("covers only" in b for b in bad) else "undecided")


def polyline_transparent(prog, rep):
    """R02.10 a polyline with a stroke colour but stroke width 0 is completely transparent (PrimitiveStyle::is_transparent)
    and its styled box is empty — it must draw nothing.  Polyline::draw_styled reads the raw `style.stroke_color` and
    draws `points()`, whose geometry does not depend on the width, so every path of it that touches the target must have
    excluded stroke_width == 0 (a `match` arm, a comparison) or take its colour from effective_stroke_color()."""
    from mirq.paths import Paths, Unsupported, show_fact
    PS = "embedded_graphics::primitives::primitive_style::PrimitiveStyle"
    fs = [f for f in prog.fns.values() if f.body and f.name == "draw_styled" and f.kind == "assoc_fn" and "polyline::styled" in f.id]
    if len(fs) != 1:
        rep.fail("R02.10", "Polyline::draw_styled", "anchor lost (%d)" % len(fs), status="undecided")
        return
    f = fs[0]
    sw = field_index(prog, PS, "stroke_width")
    sc = field_index(prog, PS, "stroke_color")
    style = ("param", 2, "style")
    width = ("field", style, sw)
    try:
        summs = Paths(prog, inline=lambda g: prog.is_new(g), loops="once").of(f)
    except Unsupported as e:
        rep.fail("R02.10", "Polyline::draw_styled", "cannot summarise: %s" % e, status="undecided", at=f.span, fn=f.path)
        return
    bad, n = [], 0
    for sm in summs:
        touches = [e for e in sm.effects if e[0] == "call" and any(isinstance(x, tuple) and x and x[0] == "param" and x[1] == 3 for x in walk(e[1]))]
        if not touches:
            continue
        n += 1
        raw_colour = any(isinstance(x, tuple) and x and strip_refs(x) == ("field", style, sc) for e in touches for x in walk(e[1]))
        if not raw_colour:
            continue
        nonzero = False
        for fc in sm.facts:
            a = strip_refs(fc[1]) if len(fc) > 1 and isinstance(fc[1], tuple) else None
            b = strip_refs(fc[2]) if len(fc) > 2 and isinstance(fc[2], tuple) and fc[2] and isinstance(fc[2][0], str) else None
            if fc[0] == "switch" and a == width and fc[2][0] == "not" and 0 in fc[2][1:]:
                nonzero = True
            if fc[0] == "eq" and ((a == width and b is not None and b[0] == "const" and b[1] not in (0, False)) or (b == width and a is not None and a[0] == "const" and a[1] not in (0, False))):
                nonzero = True
            if fc[0] == "ne" and ((a == width and b == ("const", 0)) or (b == width and a == ("const", 0))):
                nonzero = True
            if fc[0] == "lt" and a is not None and a[0] == "const" and isinstance(a[1], int) and a[1] >= 0 and b == width:
                nonzero = True
            if fc[0] == "le" and a is not None and a[0] == "const" and isinstance(a[1], int) and a[1] >= 1 and b == width:
                nonzero = True
        if not nonzero:
            bad.append("a path draws with the raw stroke colour without having excluded stroke_width == 0 [%s]" % "; ".join(show_fact(x)[:60] for x in sm.facts[:3]))
    rep.check(not bad and n >= 1, "R02.10", "Polyline::draw_styled", "a polyline of stroke width 0 is transparent and must draw nothing: %s" % ("; ".join(sorted(set(bad))[:2]) or "no drawing path found"),
              at=f.span, fn=f.path, detail={"drawing_paths": n})
