"""R08.3/R08.4 — interval abstract interpretation of every non-test, non-mock library function under the
display-scale contracts.  Every arithmetic/bounds `Assert` (and modelled pow/abs/neg) must be proved dead.

Three classes of unproved asserts:
  * listed in KNOWN_FINDINGS.txt (confirmed genuine overflow at display scale)  -> KNOWN-FINDING
  * listed in rules/c08_unclaimed.txt (outside the claim: the interval domain cannot bound them — relational
    invariants between iterator fields, unconstrained public scalar operators …, one line each)   -> not claimed
  * anything else: an assert that was proved on the reference tree and no longer is              -> violation
Keys identify an assert by function, kind, operator and a hash of the origin trees of its operands (no line
numbers, no ordinals)."""
import hashlib, os
from mirq.origin import Origins, show
from mirq.intervals import Analyzer, Contracts, fmt

HERE = os.path.dirname(os.path.abspath(__file__))
UNCLAIMED = os.path.join(HERE, "c08_unclaimed.txt")


def lib_fns(prog):
    return [f for f in sorted(prog.fns.values(), key=lambda f: f.id)
            if f.body and f.kind in ("fn", "assoc_fn", "closure") and "::mock_display::" not in f.id]


def site_key(f, org, bi, kind, op):
    body = f.body
    if bi is None or bi < 0 or bi >= len(body["blocks"]):
        return "%s|%s|%s|-" % (f.key(), kind, op)
    t = body["blocks"][bi]["t"]
    parts = []
    n = len(body["blocks"][bi]["s"])
    if t and t["k"] == "assert":
        m = t["msg"]
        for k in ("a", "b", "index", "len"):
            if k in m:
                parts.append(show(org.operand(m[k], bi, n), maxd=10))
    elif t and t["k"] == "call":
        for a in t["args"]:
            parts.append(show(org.operand(a, bi, n), maxd=10))
    else:
        parts.append("stmt")
    import re
    txt = re.sub(r"@bb\d+", "", "|".join(parts))
    h = hashlib.sha1(txt.encode()).hexdigest()[:8]
    return "%s|%s|%s|%s" % (f.key(), kind, op, h)


def analyse(prog):
    an = Analyzer(prog, Contracts())
    fns = lib_fns(prog)
    an.infer_fields(fns)
    out = {}
    n_assert = 0
    for f in fns:
        n_assert += sum(1 for b in f.body["blocks"] if b["t"] and b["t"]["k"] == "assert")
        ret, finds = an.summary(f)
        if not finds:
            continue
        org = Origins(f)
        for bi, kind, op, det, sp in finds:
            k = site_key(f, org, bi, kind, op)
            out.setdefault(k, (f, det, sp))
    return out, n_assert, an


def load_unclaimed():
    """{(fn|kind|op): allowed count}"""
    d = {}
    if os.path.exists(UNCLAIMED):
        for line in open(UNCLAIMED):
            line = line.rstrip("\n")
            if not line or line.startswith("#"):
                continue
            parts = line.split("\t")
            d[parts[0]] = int(parts[1])
    return d


def run(ctx, rep):
    prog = ctx.program("default")
    found, n_assert, an = analyse(prog)
    unclaimed = load_unclaimed()
    rep.floor("R08.4", "arithmetic/bounds asserts analysed", n_assert, 450)
    n_unclaimed = 0
    proved = n_assert - len([k for k in found if "|engine|" not in k])
    groups = {}
    for k, (f, det, sp) in sorted(found.items()):
        full = ("R08.4:" + k).replace(" ", "_")
        if (rep.pid, full) in rep.known:
            rep.fail("R08.4", k, "possible %s at display scale: %s" % (k.split("|")[1], det), at=sp, fn=f.path, detail=det)
            continue
        g = k.rsplit("|", 1)[0]
        groups.setdefault(g, []).append((k, f, det, sp))
    for g, items in sorted(groups.items()):
        allowed = unclaimed.get(g, 0)
        if len(items) <= allowed:
            n_unclaimed += len(items)
            continue
        n_unclaimed += allowed
        f = items[0][1]
        rep.fail("R08.4", g + "|excess", "%d %s/%s assert(s) in %s cannot be proved dead under the display-scale contracts, the reference tree has %d outside the claim: a guard, saturating operation or widening was removed, or new unchecked arithmetic was added. Candidates: %s"
                 % (len(items), g.split("|")[-2], g.split("|")[-1], f.key(), allowed, "; ".join("%s [%s]" % (d, sp) for _, _, d, sp in items[:4])),
                 status="undecided", at=items[0][3], fn=f.path, detail=[d for _, _, d, _ in items])
    rep.analysed["R08.4:asserts proved dead"] = proved
    rep.analysed["R08.4:asserts outside the claim (c08_unclaimed.txt)"] = n_unclaimed
    rep.analysed["R08.4:private fields with inferred ranges"] = len(an.field_rng)
    # one obligation for the proved bulk
    rep.ok("R08.4", "proved-asserts", detail="%d of %d asserts proved dead" % (proved, n_assert))
    for a in an.contracts.describe():
        rep.assume("contract: " + a)
    ex = [(k, v) for k, v in sorted(an.field_rng.items()) if "EllipseContains" in k[0] or "IntersectionParams" in k[0]][:4]
    rep.sample({"rule": "R08.4", "asserts": n_assert, "proved": proved, "inferred_field_ranges": {"%s.%s" % (k[0].split("::")[-1], k[1]): fmt(v) for k, v in ex}})


if __name__ == "__main__":
    # baseline helper: print current unproved keys (group them by fn|kind|op for c08_unclaimed.txt)
    import sys
    sys.path.insert(0, os.path.join(os.path.dirname(HERE), "engine"))
    from mirq import Program
    found, n, an = analyse(Program("default"))
    for k, (f, det, sp) in sorted(found.items()):
        print("%s\t%s" % (k, det))
