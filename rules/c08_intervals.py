"""R08.3/R08.4 — interval abstract interpretation of every non-test, non-mock library function under the
display-scale contracts.  Every arithmetic/bounds `Assert` (and modelled pow/abs/neg) must be proved dead.

Three classes of unproved asserts:
  * listed in KNOWN_FINDINGS.txt (confirmed genuine overflow at display scale)  -> KNOWN-FINDING
  * listed in rules/c08_unclaimed.txt (outside the claim: the interval domain cannot bound them — relational
    invariants between iterator fields, unconstrained public scalar operators …, one line each)   -> not claimed
  * anything else: an assert that was proved on the reference tree and no longer is              -> violation
Keys identify an assert by function, kind, operator and a hash of the origin trees of its operands (no line
numbers, no ordinals)."""
import hashlib, os
from mirq.origin import Origins, show
from mirq.intervals import Analyzer, Contracts, fmt

HERE = os.path.dirname(os.path.abspath(__file__))
UNCLAIMED = os.path.join(HERE, "c08_unclaimed.txt")


def lib_fns(prog):
    return [f for f in sorted(prog.fns.values(), key=lambda f: f.id)
            if f.body and f.kind in ("fn", "assoc_fn", "closure") and "::mock_display::" not in f.id]


def site_key(f, org, bi, kind, op):
    body = f.body
    if bi is None or bi < 0 or bi >= len(body["blocks"]):
        return "%s|%s|%s|-" % (f.key(), kind, op)
    t = body["blocks"][bi]["t"]
    parts = []
    n = len(body["blocks"][bi]["s"])
    if t and t["k"] == "assert":
        m = t["msg"]
        for k in ("a", "b", "index", "len"):
            if k in m:
                parts.append(show(org.operand(m[k], bi, n), maxd=10))
    elif t and t["k"] == "call":
        for a in t["args"]:
            parts.append(show(org.operand(a, bi, n), maxd=10))
    else:
        parts.append("stmt")
    import re
    txt = re.sub(r"@bb\d+", "", "|".join(parts))
    h = hashlib.sha1(txt.encode()).hexdigest()[:8]
    return "%s|%s|%s|%s" % (f.key(), kind, op, h)


def file_of(f):
    return (f.root_fn().span or "?").split(":")[0]


def analyse(prog):
    an = Analyzer(prog, Contracts())
    fns = lib_fns(prog)
    # helpers that do not exist in the reference tree are analysed in the context of their call sites (inlined);
    # they get a stand-alone run only when they are public or no call site could be followed
    old = [f for f in fns if not (prog.is_new(f) and f.kind != "closure" and f.d.get("vis") != "pub")]
    new = [f for f in fns if f not in old]
    an.infer_fields(old)
    out = {}
    n_assert = 0

    def one(f):
        ret, finds = an.summary(f)
        if not finds:
            return
        org = Origins(f)
        for bi, kind, op, det, sp in finds:
            k = site_key(f, org, bi, kind, op)
            out.setdefault(k, (f, det, sp))

    for f in fns:
        n_assert += sum(1 for b in f.body["blocks"] if b["t"] and b["t"]["k"] == "assert")
    for f in old:
        one(f)
    for f in new:
        if f.id not in an.inlined:
            one(f)
    return out, n_assert, an


def load_unclaimed():
    """{(file|kind|op): allowed count}"""
    d = {}
    if os.path.exists(UNCLAIMED):
        for line in open(UNCLAIMED):
            line = line.rstrip("\n")
            if not line or line.startswith("#"):
                continue
            parts = line.split("\t")
            d[parts[0]] = int(parts[1])
    return d


def group_of(k, f, file=None):
    _, kind, op, _ = k.rsplit("|", 3)
    if kind == "rem_zero":   # `a % d` and `a / d` need the same fact about d: one group
        kind = op = "div_zero"
    return "%s|%s|%s" % (file or file_of(f), kind, op)


def groups_of(prog, k, f):
    """the group(s) an unproved assert counts for: the file of its function — or, for a function that does not exist in the
    reference tree (code moved into a shared helper), the files of the reference functions it works for"""
    r = f.root_fn()
    if prog.is_new(r):
        files = sorted({file_of(prog.fns[o]) for o in prog.owners(r) if o in prog.fns})
        if files:
            return [group_of(k, f, fl) for fl in files]
    return [group_of(k, f)]


def run(ctx, rep):
    prog = ctx.program("default")
    found, n_assert, an = analyse(prog)
    unclaimed = load_unclaimed()
    rep.floor("R08.4", "arithmetic/bounds asserts analysed", n_assert, 450)
    n_unclaimed = 0
    proved = n_assert - len([k for k in found if "|engine|" not in k])
    groups = {}
    for k, (f, det, sp) in sorted(found.items()):
        full = ("R08.4:" + k).replace(" ", "_")
        if (rep.pid, full) in rep.known:
            rep.fail("R08.4", k, "possible %s at display scale: %s" % (k.split("|")[1], det), at=sp, fn=f.path, detail=det)
            continue
        for g_ in groups_of(prog, k, f):
            groups.setdefault(g_, []).append((k, f, det, sp))
    for g, items in sorted(groups.items()):
        allowed = unclaimed.get(g, 0)
        if len(items) <= allowed:
            n_unclaimed += len(items)
            continue
        n_unclaimed += allowed
        f = items[0][1]
        rep.fail("R08.4", g + "|excess", "%d %s/%s assert(s) in the functions of %s cannot be proved dead under the display-scale contracts, the reference tree has %d outside the claim: a guard, saturating operation or widening was removed, or new unchecked arithmetic was added. Candidates: %s"
                 % (len(items), g.split("|")[-2], g.split("|")[-1], g.split("|")[0], allowed, "; ".join("%s: %s [%s]" % (ff.key(), d, sp) for _, ff, d, sp in items[:6])),
                 status="undecided", at=items[0][3], fn=f.path, detail=["%s: %s" % (ff.key(), d) for _, ff, d, _ in items])
    rep.analysed["R08.4:asserts proved dead"] = proved
    rep.analysed["R08.4:asserts outside the claim (c08_unclaimed.txt)"] = n_unclaimed
    rep.analysed["R08.4:private fields with inferred ranges"] = len(an.field_rng)
    rep.analysed["R08.4:helpers analysed at their call sites"] = len(an.inlined)
    # one obligation for the proved bulk
    rep.ok("R08.4", "proved-asserts", detail="%d of %d asserts proved dead" % (proved, n_assert))
    for a in an.contracts.describe():
        rep.assume("contract: " + a)
    ex = [(k, v) for k, v in sorted(an.field_rng.items()) if "EllipseContains" in k[0] or "IntersectionParams" in k[0]][:4]
    rep.sample({"rule": "R08.4", "asserts": n_assert, "proved": proved, "inferred_field_ranges": {"%s.%s" % (k[0].split("::")[-1], k[1]): fmt(v) for k, v in ex}})


def classify(kind, det):
    if kind in ("div_zero", "rem_zero"):
        return "divisor is a public scalar or a field whose non-zero invariant is relational/type-level"
    if kind == "bounds":
        return "index bound needs a relation between the index and the slice length"
    if "2^31" in det or "2^32" in det or "2^63" in det or "2^64" in det or "inf" in det:
        return "an operand is unbounded in the interval domain (public scalar operator argument, accumulator or iterator field needing a relational invariant)"
    return "operands are correlated (non-relational imprecision), e.g. x*x - x/2"


if __name__ == "__main__":
    # baseline helper: `--baseline` rewrites c08_unclaimed.txt from the current tree (review the diff!), otherwise prints keys
    import sys
    sys.path.insert(0, os.path.join(os.path.dirname(HERE), "engine"))
    from mirq import Program
    prog = Program("default")
    found, n, an = analyse(prog)
    if "--baseline" in sys.argv:
        known = set()
        for line in open(os.path.join(os.path.dirname(HERE), "KNOWN_FINDINGS.txt")):
            if line.startswith("known:"):
                for w in line.split():
                    if w.startswith("R08.4:"):
                        known.add(w)
        groups = {}
        for k, (f, det, sp) in sorted(found.items()):
            if ("R08.4:" + k).replace(" ", "_") in known:
                continue
            for g_ in groups_of(prog, k, f):
                groups.setdefault(g_, []).append((f, det))
        head = [l for l in open(UNCLAIMED) if l.startswith("#")] if os.path.exists(UNCLAIMED) else []
        with open(UNCLAIMED, "w") as fh:
            fh.writelines(head)
            for g, items in sorted(groups.items()):
                kind = g.split("|")[1]
                why = sorted({classify(kind, d) for _, d in items})
                fns = sorted({f.key().split("::")[-1] if not f.key().startswith("<") else f.key().rsplit(">::", 1)[-1] for f, _ in items})
                fh.write("%s\t%d\toutside the claim: %s; in %s; e.g. %s\n" % (g, len(items), " / ".join(why), ", ".join(fns)[:160], items[0][1][:100]))
        print("wrote", len(groups), "groups")
    else:
        for k, (f, det, sp) in sorted(found.items()):
            print("%s\t%s" % (k, det))
