"""C08 — rendering is total and allocation-free on display-scale inputs (structural part + interval domain)."""
import json, os, sys
from mirq import ty_str, ty_walk
from mirq.cfg import CFG
from mirq.origin import Origins, show, walk, decisions, lit_truth, dominating_guards, enum_paths, path_conditions
from mirq.pat import match, find, strip_refs
from rules.c14 import field_index
from rules.c10 import fold

PANIC_PREFIX = ("core::panicking::", "core::option::unwrap_failed", "core::option::expect_failed", "core::result::unwrap_failed", "core::slice::index::slice_", "core::str::slice_error_fail")

# ---- R08.2 audited explicit panic sites: (root function key prefix, kind, number of sites) -> reason -----------------------------
AUDIT = [
    ("<embedded_graphics::mono_font::draw_target::MonoFontDrawTarget<", "panic", 1, "unreachable!() in draw_iter/clear of the internal font adapter: proved unreachable from text drawing on the monomorphic instance closure (R08.2 mono)"),
    ("<embedded_graphics_core::geometry::point::Point as core::ops::arith::Add<embedded_graphics_core::geometry::size::Size>>::add", "panic_fmt", 2, "documented: Point + Size panics if a size component exceeds i32::MAX (never at display scale: sizes <= 2^16)"),
    ("<embedded_graphics_core::geometry::point::Point as core::ops::arith::AddAssign<embedded_graphics_core::geometry::size::Size>>::add_assign", "panic_fmt", 2, "documented: as Point + Size"),
    ("<embedded_graphics_core::geometry::point::Point as core::ops::arith::SubAssign<embedded_graphics_core::geometry::size::Size>>::sub_assign", "panic_fmt", 2, "documented: as Point - Size"),
    ("embedded_graphics_core::geometry::point::Point::sub_size", "panic_fmt", 2, "documented: Point - Size panics if a size component exceeds i32::MAX"),
    ("<embedded_graphics_core::geometry::point::Point as core::ops::index::Index<usize>>::index", "panic_fmt", 1, "documented: index other than 0/1"),
    ("<embedded_graphics_core::geometry::size::Size as core::ops::index::Index<usize>>::index", "panic_fmt", 1, "documented: index other than 0/1"),
    ("<embedded_graphics_core::pixelcolor::raw::RawU16 as embedded_graphics_core::pixelcolor::raw::load_store::LoadStore<O>>::load", "unwrap", 1, "try_into of a slice obtained by get(0..2): length is exactly 2 (slot rule R11.7)"),
    ("<embedded_graphics_core::pixelcolor::raw::RawU24 as embedded_graphics_core::pixelcolor::raw::load_store::LoadStore<O>>::load", "unwrap", 1, "try_into of a slice obtained by get(0..3): length is exactly 3 (R11.7)"),
    ("<embedded_graphics_core::pixelcolor::raw::RawU32 as embedded_graphics_core::pixelcolor::raw::load_store::LoadStore<O>>::load", "unwrap", 1, "try_into of a slice obtained by get(0..4): length is exactly 4 (R11.7)"),
    ("embedded_graphics::framebuffer::Framebuffer::<C, <C as embedded_graphics_core::pixelcolor::PixelColor>::Raw, BO, WIDTH, HEIGHT, N>::CHECK_N", "panic_fmt", 1, "compile-time assertion N >= BUFFER_SIZE (evaluated by the compiler, R10.5)"),
    ("embedded_graphics::framebuffer::Framebuffer::<C, <C as embedded_graphics_core::pixelcolor::PixelColor>::Raw, O, WIDTH, HEIGHT, N>::as_image", "unwrap", 1, "ImageRaw::new on data[0..BUFFER_SIZE] with Size(WIDTH, HEIGHT): the length is the expected one by R10.4/R10.5/R09.2"),
    ("embedded_graphics::image::image_raw::ImageRaw::<'a, C, O>::new_const", "panic_fmt", 1, "documented panic of the const constructor (compile-time for built-in fonts)"),
    ("embedded_graphics::primitives::common::closed_thick_segment_iter::ClosedThickSegmentIter::<'a>::new", "unwrap", 1, "first() of a slice tested non-empty on the same path"),
    ("embedded_graphics::primitives::common::scanline::Scanline::touches", "assert_failed", 1, "debug_assert on equal y of two scanlines produced for the same row (internal contract)"),
    ("embedded_graphics::primitives::common::scanline::Scanline::try_extend", "assert_failed", 1, "debug_assert on equal y (internal contract)"),
    ("embedded_graphics::primitives::polyline::scanline_iterator::ScanlineIterator::<'a>::new", "panic_fmt", 1, "debug_assert!(stroke_width > 1): thick scanline iterator is only built for widths >= 2 (R01.2 polyline rules)"),
    ("embedded_graphics::primitives::triangle::Triangle::from_slice", "panic_fmt", 1, "documented: slice length other than 3"),
]


def panic_kind(path, name):
    if path.startswith("core::panicking::"):
        return path.split("::")[-1]
    return name


def run(ctx, rep):
    no_alloc(ctx, rep)
    prog = ctx.program("default")
    audit(prog, rep)
    mono_unreachable(rep)
    zero_guards(prog, rep)
    try:
        from rules import c08_intervals
        c08_intervals.run(ctx, rep)
    except ImportError:
        pass


def no_alloc(ctx, rep):
    """R08.1: no allocator in the program — exact: without the alloc crate there is no allocation API."""
    for config in ctx.configs:
        prog = ctx.program(config)
        rep.configs.append(config)
        for cname, data in prog.crates.items():
            bad = [c for c in data["extern_crates"] if c in ("alloc", "std")]
            rep.check(not bad, "R08.1", "crate-graph:%s:%s" % (config, cname), "crate graph of %s (%s) contains %s: heap allocation becomes available" % (cname, config, bad), detail=data["extern_crates"])
        hits = []
        n_calls = 0
        for f in prog.fns.values():
            if not f.body:
                continue
            for body in [f.body] + list(f.promoted):
                for l in body["locals"]:
                    for s in ty_walk(l["ty"]):
                        if isinstance(s, dict):
                            p = s.get("adt") or s.get("fndef") or ""
                            if p.startswith(("alloc::", "std::")):
                                hits.append("%s: type %s" % (f.key(), p))
                for b in body["blocks"]:
                    t = b["t"]
                    if t and t["k"] == "call":
                        n_calls += 1
                        p = (t["f"].get("resolved") or t["f"]).get("path", "") or ""
                        if p.startswith(("alloc::", "std::")) or "<alloc::" in p or "<std::" in p:
                            hits.append("%s: call %s" % (f.key(), p))
        rep.check(not hits, "R08.1", "no-alloc-paths:" + config, "items of alloc/std used: %s" % hits[:3], detail=hits[:10])
        rep.analysed["R08.1:calls scanned:" + config] = n_calls
    rep.sample({"rule": "R08.1", "extern_crates": ctx.program("default").crates["embedded_graphics"]["extern_crates"]})


def _fn_item_operands(body):
    """paths of the function items that occur as constant operands (call arguments, assigned values)"""
    out = []

    def scan(o):
        c = o.get("const") if isinstance(o, dict) else None
        t = c.get("ty") if isinstance(c, dict) else None
        if isinstance(t, dict) and "fndef" in t:
            out.append(t["fndef"])
    for b in body["blocks"]:
        for s_ in b["s"]:
            if s_["k"] == "assign":
                rv = s_["rv"]
                for k in ("a", "b"):
                    if k in rv:
                        scan(rv[k])
                for o in rv.get("ops", []) or []:
                    scan(o)
        t = b["t"]
        if t and t["k"] == "call":
            for a in t["args"]:
                scan(a)
    return out


def audit(prog, rep):
    """Sites are keyed by (root function, kind): closures count for the function that creates them, and a helper
    that does not exist in the reference tree counts for every reference function that (transitively) calls it."""
    own = {}
    for f in sorted(prog.fns.values(), key=lambda f: f.id):
        if not f.body or "::mock_display::" in f.id:
            continue
        for b in f.body["blocks"]:
            t = b["t"]
            if t and t["k"] == "call":
                path = t["f"].get("path", "") or ""
                nm = t["f"].get("name", "")
                if path.startswith(PANIC_PREFIX) or (nm in ("unwrap", "expect", "unwrap_unchecked") and path.startswith("core::")):
                    own.setdefault(f.root_fn().id, []).append((panic_kind(path, nm), t.get("sp", "")))
    # callers of new helpers
    callers = {}
    for f in prog.fns.values():
        if not f.body:
            continue
        for b in f.body["blocks"]:
            t = b["t"]
            if t and t["k"] == "call":
                p = (t["f"].get("resolved") or t["f"]).get("path", "") or ""
                for g in prog.by_path.get(p, []):
                    if g.body and prog.is_new(g):
                        callers.setdefault(g.root_fn().id, set()).add(f.root_fn().id)
        # a helper handed on as a function item (`.map(helper::<O>)`) is used by the function that mentions it
        for o in _fn_item_operands(f.body):
            for g in prog.by_path.get(o, []):
                if g.body and prog.is_new(g):
                    callers.setdefault(g.root_fn().id, set()).add(f.root_fn().id)

    def owners(fid, seen=()):
        f = prog.fns[fid]
        if not prog.is_new(f) or fid in seen:
            return {fid}
        cs = callers.get(fid)
        if not cs:
            return {fid}
        out = set()
        for c in cs:
            out |= owners(c, seen + (fid,))
        return out

    sites = {}
    for fid, lst in own.items():
        for o in owners(fid):
            for kind, sp in lst:
                sites.setdefault((prog.fns[o].key(), kind), []).append(sp)
    n = 0
    for (fk, kind), sps in sorted(sites.items()):
        reason = None
        for pref, akind, cnt, why in AUDIT:
            if fk.startswith(pref) and kind == akind and len(sps) <= cnt:
                reason = why
        n += 1
        rep.check(reason is not None, "R08.2", "panic-site:%s:%s" % (kind, fk),
                  "unaudited explicit panic site(s) (%s, %d) in %s: every panic entry point reachable from library code must be listed with the reason why display-scale inputs cannot reach it" % (kind, len(sps), fk),
                  at=sps[0], fn=fk, detail=reason)
    rep.floor("R08.2", "explicit panic sites", n, 15)


def mono_unreachable(rep):
    import extract
    path = extract.roots_facts()
    d = json.load(open(path))
    m = d["mono"]
    insts = m["instances"]
    rep.floor("R08.2", "mono instances", len(insts), 200)
    rep.floor("R08.2", "mono roots", len(m["roots"]), 5)
    bad = []
    seen_fill = 0
    for i in insts:
        if "mono_font::draw_target::MonoFontDrawTarget" in i["path"]:
            nm = i["path"].split("::")[-1]
            if nm in ("draw_iter", "clear"):
                bad.append(i["full"])
            if nm in ("fill_contiguous", "fill_solid"):
                seen_fill += 1
    rep.check(not bad, "R08.2", "mono:font-adapter-unreachable",
              "text drawing reaches MonoFontDrawTarget::draw_iter/clear, whose bodies are unreachable!(): %s" % [b[:160] for b in bad[:2]], detail=bad[:4])
    rep.check(seen_fill >= 12, "R08.2", "mono:font-adapter-used", "expected the fill_contiguous/fill_solid instances of all three flavours on both dummy targets in the closure (found %d)" % seen_fill, status="undecided")
    opaque = sorted({i["path"] for i in insts if i.get("opaque") in ("no_mir", "virtual")})
    rep.analysed["R08.2:opaque instances"] = len(opaque)
    rep.sample({"rule": "R08.2 mono", "instances": len(insts), "roots": [r["name"] for r in m["roots"]], "opaque": opaque[:6]})


def zero_guards(prog, rep):
    """R08.5 zero-extent guards at the two sites the property anchors."""
    CP = "embedded_graphics::image::image_raw::ContiguousPixels"
    nx = prog.method1(CP, "next", "core::iter::traits::iterator::Iterator")
    fidx = {f["name"]: i for i, f in enumerate(prog.adts[CP]["variants"][0]["fields"])}
    # every path that evaluates `width - 1` has established remaining_y != 0 (path summaries: `if`, `match` on a tuple,
    # guard clauses all give the same facts); new() guarantees remaining_y == 0 when width == 0 (R09.4 count rule)
    from mirq.paths import Paths, Unsupported, holds, show_fact
    from mirq.pat import strip_refs
    me = ("param", 1, "self")
    sf = lambda n: ("field", me, fidx[n])
    ok, n, why = True, 0, ""
    try:
        for sm in Paths(prog, inline=lambda g: prog.is_new(g)).of(nx):
            uses = [x for e in sm.effects for t_ in e[1:] if isinstance(t_, tuple) for x in walk(t_)
                    if x[0] == "bin" and x[1] in ("Sub", "SubWithOverflow") and strip_refs(x[2]) == sf("width")]
            if not uses:
                continue
            n += 1
            if not holds(sm.facts, ("ne", sf("remaining_y"), ("const", 0))):
                ok = False
                why = "; ".join(show_fact(f)[:60] for f in sm.facts[:4])
    except Unsupported as e:
        ok, why = False, "cannot summarise: %s" % e
    rep.check(ok and n >= 1, "R08.5", "ContiguousPixels::next", "`self.width - 1` must only be evaluated when remaining_y != 0 (new() leaves remaining_y = 0 for zero-width images, so a zero width never underflows) %s" % why, at=nx.span, fn=nx.path)
    nw = prog.method1(CP, "new", None)
    # what-if query of the interval domain: with size.width = 0 at entry, the remaining_y of every result is 0
    from mirq.intervals import Analyzer, Contracts, FnRun, fmt
    an = Analyzer(prog, Contracts())
    names = [l.get("name") for l in nw.body["locals"][1:nw.body["argc"] + 1]]
    good = "size" in names
    got = None
    if good:
        run = FnRun(an, nw)
        run.run({(names.index("size") + 1, (("f", 0),)): (0, 0)})
        got = run.ret_sub.get((("f", fidx["remaining_y"]),))
        good = got == (0, 0)
    if not good:
        # the interval domain does not see through Option combinators; decide the same on the path summaries: every path
        # of new() that has not established 0 < size.width stores the constant 0 in remaining_y
        try:
            from mirq.origin import mk_field
            summs = Paths(prog, inline=lambda g: prog.is_new(g)).of(nw)
            okp = bool(summs) and "width" in fidx
            for sm in summs:
                # the row width the stream is built with (whatever parameter carries it): the value stored in `width`
                w = strip_refs(mk_field(strip_refs(sm.ret), fidx["width"]))
                if w[0] == "const":
                    okp = False
                    continue
                if holds(sm.facts, ("lt", ("const", 0), w)) or holds(sm.facts, ("ne", w, ("const", 0))):
                    continue
                v = strip_refs(mk_field(strip_refs(sm.ret), fidx["remaining_y"]))
                if v != ("const", 0):
                    okp = False
            if okp:
                good, got = True, (0, 0)
        except Unsupported:
            pass
    rep.check(good, "R08.5", "ContiguousPixels::new", "remaining_y must be 0 whenever size.width is 0 (prevents the underflow of `width - 1` in next()); the interval analysis of new() with size.width = 0 gives remaining_y in %s" % fmt(got), at=nw.span, fn=nw.path)
    # iterator::contiguous::Cropped::next: uses of self.iter are behind the emptiness test
    CR = "embedded_graphics::iterator::contiguous::Cropped"
    nx = prog.method1(CR, "next", "core::iter::traits::iterator::Iterator")
    fidx = {f["name"]: i for i, f in enumerate(prog.adts[CR]["variants"][0]["fields"])}
    sf = lambda n: ("field", me, fidx[n])
    ok, n, why = True, 0, ""
    try:
        for sm in Paths(prog, inline=lambda g: prog.is_new(g)).of(nx):
            pulls = [e for e in sm.effects if e[0] == "call" and e[1][1].split("::")[-1] in ("next", "nth") and any(strip_refs(x) == sf("iter") for x in walk(e[1][3][0]))]
            if not pulls:
                continue
            n += 1
            if not (holds(sm.facts, ("lt", sf("y"), ("field", sf("size"), 1))) and holds(sm.facts, ("ne", ("field", sf("size"), 0), ("const", 0)))):
                ok = False
                why = "; ".join(show_fact(f)[:60] for f in sm.facts[:4])
    except Unsupported as e:
        ok, why = False, "cannot summarise: %s" % e
    rep.check(ok and n >= 2, "R08.5", "contiguous::Cropped::next", "every pull from the inner iterator must be behind `y < size.height && size.width != 0` (an empty crop must end at once) %s" % why, at=nx.span, fn=nx.path)
